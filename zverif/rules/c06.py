"""C06 -- undo restores the pre-transaction state or changes nothing
(narrow: guard / exit structure of undo, not its arithmetic)."""

import ast

from ..engine import rule
from ..flow import PRUNE, Flags, Violation, explore, if_branches, \
    implied_atoms, \
    path_ends, path_is, prov_has, provenance, store_value
from ..model import dotted, walk_local
from ..twopc import FS

UNDOI = 'ZODB.mvccadapter.UndoAdapterInstance'


def tfile_write(F, node):
    return [op for op in F.ops(node) if op.kind == 'call' and path_is(
        op.path, ('self', '_tfile', 'write'))]


@rule('C06.R2', 'only transactions with normal status are undone: the status '
      'check precedes every staged undo record', min_instances=1)
def r2(R):
    cls = R.prog.cls(FS)
    f = R.method(cls, '_txn_undo_write')
    g, b, F = R.cfg(f, cls, max_depth=0)
    seen = [0]
    hdr = set()
    for x in walk_local(f.node):
        if isinstance(x, ast.Assign) and isinstance(x.value, ast.Call) and \
                dotted(x.value.func) == ('self', '_read_txn_header') and \
                isinstance(x.targets[0], ast.Name):
            hdr.add(x.targets[0].id)

    def edge(node, st, lab, tgt):
        if node.kind == 'test' and lab in ('T', 'F'):
            for e, truth in implied_atoms(node.ast, lab):
                if isinstance(e, ast.Compare) and len(e.ops) == 1 and \
                        isinstance(e.left, ast.Attribute) and \
                        e.left.attr == 'status' and isinstance(
                            e.left.value, ast.Name) and \
                        e.left.value.id in hdr and isinstance(
                            e.comparators[0], ast.Constant) and \
                        e.comparators[0].value == ' ':
                    is_normal = isinstance(e.ops[0], ast.Eq) == truth
                    return 'normal' if is_normal else 'other'
        return st

    def at(node, st):
        if tfile_write(F, node):
            seen[0] += 1
            if st != 'normal':
                return Violation(
                    'an undo record is staged although the transaction\'s '
                    'status was %s: packed ("p"), undone ("u") or unfinished '
                    '("c") transactions must be refused with UndoError' % (
                        'not checked' if st == 'none' else
                        'found not to be normal'))
        if st == 'other' and node.id == g.exit_return:
            return Violation('undo of a transaction whose status is not '
                             'normal returns instead of raising UndoError')
        return st

    vs, stats = explore(g, 'none', at=at, edge=edge)
    R.count(stats)
    R.instance('FileStorage._txn_undo_write', staged_writes=seen[0])
    R.require(seen[0] or vs, 'no staged undo writes found')
    for v in vs:
        R.violation(v.node if v.node.id != g.exit_return else (
            f.module.relpath, f.qualname, 'status check'), v.message, g,
            v.path)


@rule('C06.R3', 'an undo with a record that cannot be undone fails as a '
      'whole: pending failures are checked after the loop and raise',
      min_instances=1)
def r3(R):
    cls = R.prog.cls(FS)
    f = R.method(cls, '_txn_undo_write')
    g, b, F = R.cfg(f, cls, max_depth=0)
    R.instance('FileStorage._txn_undo_write failures')
    # the variable that collects failures: assigned in an `except UndoError`
    fv = None
    for t in walk_local(f.node):
        if isinstance(t, ast.Try):
            for h in t.handlers:
                if h.type is not None and 'UndoError' in ast.unparse(h.type):
                    for x in ast.walk(h):
                        if isinstance(x, ast.Subscript) and isinstance(
                                x.ctx, ast.Store) and isinstance(
                                    x.value, ast.Name):
                            fv = x.value.id
    if fv is None:
        R.violation((f.module.relpath, f.qualname, 'failure collection'),
                    'a record that cannot be undone is no longer remembered '
                    '(UndoError swallowed?)')
        return

    def edge(node, st, lab, tgt):
        if node.kind == 'test' and lab in ('T', 'F'):
            for e, truth in implied_atoms(node.ast, lab):
                if isinstance(e, ast.Name) and e.id == fv:
                    return 'pending' if truth else 'clean'
        if node.kind == 'handler' and node.ast.type is not None and \
                'UndoError' in ast.unparse(node.ast.type):
            return 'unchecked'
        if node.kind == 'stmt' and isinstance(node.ast, ast.Assign) and any(
                isinstance(t, ast.Name) and t.id == fv
                for t in node.ast.targets):
            return 'unchecked' if st != 'none' else st
        return st

    def at(node, st):
        if node.id == g.exit_return:
            if st == 'unchecked':
                return Violation(
                    'the undo index is returned without looking at the '
                    'pending failures: part of the transaction is undone, '
                    'part is not')
            if st == 'pending':
                return Violation('pending undo failures do not raise')
        return st

    vs, stats = explore(g, 'none', at=at, edge=edge)
    R.count(stats)
    for v in vs:
        R.violation((f.module.relpath, f.qualname, 'failures check'),
                    v.message, g, v.path)


@rule('C06.R4', 'when later data differs from the data being undone, the '
      'only way not to fail is the resolver\'s merge; undoing a creation '
      'that was changed later always fails', min_instances=1)
def r4(R):
    cls = R.prog.cls(FS)
    f = R.method(cls, '_transactionalUndoRecord')
    g, b, F = R.cfg(f, cls, max_depth=0)
    ps = [p for p in f.params if p != 'self']
    pre = ps[3]
    R.instance('FileStorage._transactionalUndoRecord',
               cfg_nodes=len(g.reachable()))
    # the flag variable: a local boolean set False where data differs
    flag = None
    for x in walk_local(f.node):
        if not isinstance(x, ast.If):
            continue
        # the block entered when two values were found to DIFFER
        for atoms, block in if_branches(x):
            if not any(isinstance(e, ast.Compare) and len(e.ops) == 1 and
                       isinstance(e.ops[0], (ast.Eq, ast.NotEq)) and
                       isinstance(e.ops[0], ast.NotEq) == t
                       for e, t in atoms):
                continue
            for y in block:
                if isinstance(y, ast.Assign) and isinstance(
                        y.value, ast.Constant) and y.value.value is False \
                        and isinstance(y.targets[0], ast.Name):
                    flag = y.targets[0].id
    if flag is None:
        R.violation((f.module.relpath, f.qualname, 'differs flag'),
                    'the comparison of the data being undone with the '
                    'current data no longer decides between copying and '
                    'merging')
        return

    def keyfn(e, fr):
        if isinstance(e, ast.Name) and e.id in (flag, pre):
            return e.id
        return None
    flags = Flags(F, keyfn)

    def edge(node, st, lab, tgt):
        fl, merged = st
        fl = flags.learn(node, fl, lab)
        if fl is PRUNE:
            return PRUNE
        fl = flags.assign(node, fl, lab)
        if lab != 'e':
            for op in F.ops(node):
                if op.kind == 'call' and op.path and \
                        op.path[-1] == 'tryToResolveConflict':
                    s = op.stmt
                    if isinstance(s, ast.Assign) and isinstance(
                            s.targets[0], ast.Name):
                        merged = s.targets[0].id
        return (fl, merged)

    def at(node, st):
        fl, merged = st
        if node.kind == 'return' and node.frame.parent is None:
            differs = flags.value(fl, flag) is False
            if differs:
                if flags.value(fl, pre) is False:
                    return Violation(
                        'undo of an object creation returns normally '
                        'although the object was changed afterwards: the '
                        'later change is silently discarded')
                v = node.ast.value
                first = v.elts[0] if isinstance(v, ast.Tuple) and v.elts \
                    else v
                if not (merged and isinstance(first, ast.Name) and
                        first.id == merged):
                    return Violation(
                        'the current data differs from the data being '
                        'undone, yet undo returns `%s` instead of the '
                        'resolver\'s merge: the later change is overwritten' %
                        ast.unparse(v))
        return st

    vs, stats = explore(g, (frozenset(), None), at=at, edge=edge)
    R.count(stats)
    for v in vs:
        R.violation(v.node, v.message, g, v.path)


@rule('C06.R6', 'the oids changed by an undo (from undo and from the vote) '
      'are what the undo adapter invalidates everywhere', props=['C02'], min_instances=3)
def r6(R):
    cls = R.prog.cls(UNDOI)
    checks = [('undo', 'undo', True), ('tpc_vote', 'tpc_vote', False)]
    for meth, call, index1 in checks:
        f = R.method(cls, meth)
        g, b, F = R.cfg(f, cls, max_depth=0)
        R.instance('UndoAdapterInstance.%s collects oids' % meth)
        res = None
        for x in walk_local(f.node):
            if isinstance(x, ast.Assign) and isinstance(x.value, ast.Call) \
                    and isinstance(x.value.func, ast.Attribute) and \
                    x.value.func.attr == call and isinstance(
                        x.targets[0], ast.Name):
                res = x.targets[0].id
        upd = [c for c in walk_local(f.node) if isinstance(c, ast.Call) and
               dotted(c.func) == ('self', '_undone', 'update') and c.args]
        ok = False
        for c in upd:
            a = c.args[0]
            if index1:
                ok = ok or (isinstance(a, ast.Subscript) and isinstance(
                    a.value, ast.Name) and a.value.id == res and isinstance(
                        a.slice, ast.Constant) and a.slice.value == 1)
            else:
                ok = ok or (isinstance(a, ast.Name) and a.id == res)
        if not ok:
            R.violation((f.module.relpath, f.qualname, 'collect undone oids'),
                        'UndoAdapterInstance.%s does not add the oids '
                        'reported by the storage to the set it invalidates: '
                        'other connections keep the undone state in their '
                        'caches' % meth)
    f = R.method(cls, 'tpc_finish')
    R.instance('UndoAdapterInstance.tpc_finish invalidates the collected set')
    ok = any(isinstance(c, ast.Call) and isinstance(c.func, ast.Attribute)
             and c.func.attr == '_invalidate_finish' and len(c.args) >= 2 and
             dotted(c.args[1]) == ('self', '_undone')
             for c in ast.walk(f.node))
    if not ok:
        R.violation((f.module.relpath, f.qualname, 'invalidate undone'),
                    'the finish callback does not invalidate the collected '
                    'oids')
    b_ = R.method(cls, 'tpc_begin')
    if 'self._undone = set()' not in ast.unparse(b_.node) and \
            'self._undone.clear()' not in ast.unparse(b_.node):
        R.violation((b_.module.relpath, b_.qualname, 'reset undone'),
                    'tpc_begin does not start with an empty set of undone '
                    'oids')


# ------------------------------------------------------------------ C06.R7
@rule('C06.R7', 'undo decides "nothing changed since" by comparing the data '
      'of the record being undone with the data of the object\'s CURRENT '
      'record, and hands the resolver the current data itself',
      props=['C03', 'C10'], min_instances=1)
def r7(R):
    """Flow-sensitive kinds of the values in _transactionalUndoRecord:
    'undone'  = loaded through the position of the record being undone
                (the `pos` parameter),
    'current' = what _undoDataInfo() reports for the current record, or
                loaded through the current record's data pointer.
    The inequality that switches from copying to merging must compare one
    of each; comparing two loads of the same record is always "equal" and
    turns every undo into a blind overwrite of later changes.  What
    _undoDataInfo reports as current data may be empty (the current record
    is a backpointer): it must have been loaded before it is handed to the
    resolver as the committed state (the resolver's fallback, loadSerial of
    the current tid, fails inside a multi-undo, where that tid is the
    transaction being written)."""
    cls = R.prog.cls(FS)
    f = R.method(cls, '_transactionalUndoRecord')
    g, b, F = R.cfg(f, cls, max_depth=0)
    ps = [p for p in f.params if p != 'self']
    undone_pos = ps[1]
    seen = [0]

    def kind_of(e, k):
        """kind of an expression under the name kinds `k`"""
        if isinstance(e, ast.Name):
            v = k.get(e.id)
            return 'current' if v in ('current', 'current?') else v
        if isinstance(e, ast.Subscript):
            return kind_of(e.value, k)
        if isinstance(e, ast.Call) and dotted(e.func) and dotted(
                e.func)[-1].startswith('_loadBack') and len(e.args) >= 2 \
                and isinstance(e.args[1], ast.Name):
            p_ = e.args[1].id
            if p_ == undone_pos:
                return 'undone'
            if k.get(p_) == 'current-ptr':
                return 'current'
            return None
        if isinstance(e, ast.BoolOp):
            ks = {kind_of(v, k) for v in e.values}
            return ks.pop() if len(ks) == 1 else None
        return None

    def kinds_after(node, kinds, lab):
        a = node.ast
        if lab in ('e', 'eb') or node.kind != 'stmt' or not isinstance(
                a, ast.Assign):
            return kinds
        d = dict(kinds)
        v = a.value
        inner = v.value if isinstance(v, ast.Subscript) else v
        info = isinstance(inner, ast.Call) and dotted(inner.func) and \
            dotted(inner.func)[-1] == '_undoDataInfo'
        kind = kind_of(v, d)
        for t in a.targets:
            names = [x.id for x in ast.walk(t) if isinstance(x, ast.Name)]
            for i, nm in enumerate(names):
                d.pop(nm, None)
                if info and isinstance(t, ast.Tuple):
                    # ctid, cdataptr, current_data = self._undoDataInfo(..)
                    # (the data may be empty: 'current?')
                    d[nm] = 'current-ptr' if i == 1 else (
                        'current?' if i == 2 else 'current-tid')
                elif kind:
                    d[nm] = kind
                elif isinstance(v, ast.Constant) and isinstance(
                        t, ast.Name) and isinstance(v.value, bool):
                    d[nm] = v.value
        return frozenset(d.items())

    def edge(node, st, lab, tgt):
        kinds = kinds_after(node, st, lab)
        if node.kind == 'test' and lab in ('T', 'F'):
            k = dict(kinds)
            for e, truth in implied_atoms(node.ast, lab):
                # boolean flags assigned only literals (copy = True/False)
                if isinstance(e, ast.Name) and isinstance(k.get(e.id), bool):
                    if k[e.id] != truth:
                        return PRUNE
                # `if current_data:` / `if not current_data:` settles
                # whether the reported data is there
                if isinstance(e, ast.Name) and k.get(e.id) == 'current?' \
                        and truth:
                    k[e.id] = 'current'
                    kinds = frozenset(k.items())
                if isinstance(e, ast.Compare) and len(e.ops) == 1 and \
                        isinstance(e.ops[0], (ast.Eq, ast.NotEq)):
                    ks = [kind_of(e.left, k), kind_of(e.comparators[0], k)]
                    if 'undone' in ks or 'current' in ks:
                        seen[0] += 1
                        if sorted(x or '?' for x in ks) != ['current',
                                                            'undone']:
                            return Violation(
                                'the comparison `%s` that decides whether '
                                'the object changed after the transaction '
                                'being undone compares %s with %s: it must '
                                'compare the data of the record being undone '
                                'with the data of the current record, or a '
                                'later change is overwritten without merge '
                                'or UndoError' % (
                                    ast.unparse(e)[:80], ks[0] or 'an '
                                    'unknown value', ks[1] or 'an unknown '
                                    'value'))
        return kinds

    def at(node, st):
        k = dict(st)
        for op in F.ops(node):
            if op.kind == 'call' and op.path and \
                    op.path[-1] == 'tryToResolveConflict':
                for a_ in op.ast.args:
                    if isinstance(a_, ast.Name) and k.get(
                            a_.id) == 'current?':
                        return Violation(
                            'the resolver is handed `%s` as the committed '
                            'state on a path where it may still be the empty '
                            'placeholder _undoDataInfo reports for a current '
                            'record that is a backpointer: the resolver then '
                            'tries loadSerial(oid, <current tid>), which '
                            'fails when that tid is the undo transaction '
                            'being written (undo of several transactions at '
                            'once), and a mergeable undo is refused'
                            % a_.id)
        return st

    vs, stats = explore(g, frozenset(), at=at, edge=edge)
    R.count(stats)
    R.instance('FileStorage._transactionalUndoRecord data comparison')
    R.require(seen[0] or vs, 'the comparison of undone and current data '
              'vanished from _transactionalUndoRecord')
    for v in vs:
        R.violation(v.node, v.message, g, v.path)


# ------------------------------------------------------------------ C06.R8
@rule('C06.R8', 'for blob records "the current record equals the record '
      'being undone" does not mean nothing changed (their bytes live in '
      'files): undo consults the record\'s blob-ness before it copies',
      props=['C13'], min_instances=1)
def r8(R):
    cls = R.prog.cls(FS)
    f = R.method(cls, '_transactionalUndoRecord')
    g, b, F = R.cfg(f, cls, max_depth=0)
    R.instance('FileStorage._transactionalUndoRecord equal branch')
    seen = [0]

    def edge(node, st, lab, tgt):
        if node.kind == 'test' and lab in ('T', 'F'):
            if any(isinstance(c, ast.Call) and dotted(c.func) and
                   dotted(c.func)[-1] == 'is_blob_record'
                   for c in ast.walk(node.ast)) and st == 'equal':
                return 'checked'
            for e, truth in implied_atoms(node.ast, lab):
                if isinstance(e, ast.Compare) and len(e.ops) == 1 and \
                        isinstance(e.ops[0], (ast.Eq, ast.NotEq)) and \
                        isinstance(e.left, ast.Name) and isinstance(
                            e.comparators[0], ast.Name):
                    names = {e.left.id, e.comparators[0].id}
                    defs = b.local_defs(f)
                    loaded = [n_ for n_ in names if any(
                        isinstance(d, ast.AST) and any(
                            isinstance(c, ast.Call) and dotted(c.func) and
                            dotted(c.func)[-1].startswith('_loadBack')
                            for c in ast.walk(d))
                        for d in defs.get(n_, []))]
                    if loaded:
                        seen[0] += 1
                        same = isinstance(e.ops[0], ast.Eq) == truth
                        return 'equal' if same else 'differs'
        return st

    def at(node, st):
        if st == 'equal' and node.kind == 'return' and \
                node.frame.parent is None:
            return Violation(
                'undo copies the earlier state forward because the current '
                'record equals the record being undone, without looking '
                'whether they are blob records: all records of a blob '
                'hold the same pickle, so a later rewrite of the blob is '
                'not noticed and is silently discarded by the undo')
        return st

    vs, stats = explore(g, 'start', at=at, edge=edge)
    R.count(stats)
    R.require(seen[0] or vs, 'the data comparison vanished from '
              '_transactionalUndoRecord')
    for v in vs:
        R.violation(v.node, v.message, g, v.path)


# ------------------------------------------------------------------ C06.R9
@rule('C06.R9', 'a record that is not the object\'s current one is undone '
      'only on a path that established either that the current record '
      'points at exactly the record being undone, or what the comparison of '
      'the two data says', props=['C03'], min_instances=1)
def r9(R):
    cls = R.prog.cls(FS)
    f = R.method(cls, '_transactionalUndoRecord')
    g, b, F = R.cfg(f, cls, max_depth=0)
    ps = [p for p in f.params if p != 'self']
    undone_pos = ps[1]
    # the local that receives the current record's data pointer: second
    # element of what _undoDataInfo returns
    ptrs = set()
    for s in walk_local(f.node):
        if isinstance(s, ast.Assign) and isinstance(s.value, ast.Call) and \
                dotted(s.value.func) == ('self', '_undoDataInfo') and \
                isinstance(s.targets[0], ast.Tuple) and \
                len(s.targets[0].elts) >= 2 and isinstance(
                    s.targets[0].elts[1], ast.Name):
            ptrs.add(s.targets[0].elts[1].id)
    R.require(ptrs, '_transactionalUndoRecord no longer asks _undoDataInfo '
              'for the current record')
    R.instance('FileStorage._transactionalUndoRecord', current_pointer=sorted(
        ptrs))

    def loaded(e, fr):
        pv = provenance(e, fr, F)
        return prov_has(pv, 'call', lambda p: p[-1] in (
            '_loadBack_impl', '_undoDataInfo'))

    def edge(node, st, lab, tgt):
        if node.kind == 'test' and lab in ('T', 'F') and st == 'unchecked':
            for e, truth in implied_atoms(node.ast, lab):
                if not (isinstance(e, ast.Compare) and len(e.ops) == 1 and
                        isinstance(e.ops[0], (ast.Eq, ast.NotEq))):
                    continue
                l, r = e.left, e.comparators[0]
                names = {x.id for x in (l, r) if isinstance(x, ast.Name)}
                if undone_pos in names and names & ptrs:
                    if isinstance(e.ops[0], ast.Eq) == truth:
                        return 'same-record'
                elif not (names & ({undone_pos} | ptrs)) and \
                        loaded(l, node.frame) and loaded(r, node.frame):
                    return 'compared'
        if lab in ('e', 'eb'):
            return st
        for op in F.ops(node):
            if op.kind == 'call' and path_is(op.path,
                                             ('self', '_undoDataInfo')):
                return 'unchecked'
        return st

    def at(node, st):
        if node.kind == 'return' and node.frame.parent is None and \
                st == 'unchecked':
            return Violation(
                'a record that is not current is undone without knowing '
                'that the current record points at it and without having '
                'compared the data: inside a multi-undo (or after a later '
                'commit) the later change is silently discarded')
        return st

    vs, stats = explore(g, None, at=at, edge=edge)
    R.count(stats)
    for v in vs:
        R.violation(v.node, v.message, g, v.path)


# ------------------------------------------------------------------ C06.R10
@rule('C06.R10', 'an undo that fails leaves nothing in the transaction '
      'buffer: every raising exit of FileStorage.undo that follows a write '
      'of an undo record rewinds the buffer to where the undo found it',
      props=['C05', 'C01'], min_instances=1)
def r10(R):
    cls = R.prog.cls(FS)
    f = R.method(cls, 'undo')
    g, b, F = R.cfg(f, cls, max_depth=2,
                    inline=lambda t, fr: t.func.name == '_txn_undo_write')
    writes = [0]

    from ..flow import Flags
    consts = {t.id for s_ in ast.walk(f.node) if isinstance(s_, ast.Assign)
              and isinstance(s_.value, ast.Constant) and isinstance(
                  s_.value.value, bool)
              for t in s_.targets if isinstance(t, ast.Name)}
    flags = Flags(F, lambda e, fr: e.id if isinstance(e, ast.Name) and
                  e.id in consts and fr.parent is None else None)

    def edge(node, st0, lab, tgt):
        st, fl = st0
        fl = flags.learn(node, fl, lab)
        if fl is PRUNE:
            return PRUNE
        if lab not in ('e', 'eb'):
            fl = flags.assign(node, fl, lab)
        st = edge1(node, st, lab, tgt)
        if st is PRUNE:
            return PRUNE
        return (st, fl)

    def edge1(node, st, lab, tgt):
        # st: None (nothing written) | 'dirty' | 'failed' | 'rewound'
        for op in F.ops(node):
            if op.kind == 'call' and path_is(op.path,
                                             ('self', '_tfile', 'write')):
                # (the write may have happened even if the node raises)
                st = 'dirty'
            elif op.kind == 'call' and path_is(
                    op.path, ('self', '_tfile', 'seek')) and st == 'failed':
                a = op.ast.args
                if len(a) == 1:
                    pv = provenance(a[0], node.frame, F)
                    if prov_has(pv, 'call', lambda p: tuple(p[-2:]) == (
                            '_tfile', 'tell')):
                        if lab in ('e', 'eb'):
                            return PRUNE   # the rewind itself failing
                        st = 'rewound'
        # the undo computation fails: an exception leaves a statement of
        # _txn_undo_write (only those failures are judged)
        if st == 'dirty' and node.frame.parent is not None and \
                tgt.frame is not None and tgt.frame.parent is None and (
                lab in ('e', 'eb') or node.kind in ('raise', 'reraise')):
            st = 'failed'
        return st

    def at(node, st):
        if node.id == g.exit_raise and st[0] == 'failed':
            return Violation(
                'FileStorage.undo fails with undo records already written '
                'to the transaction buffer and does not rewind it: if the '
                'caller goes on with the transaction, the records of the '
                'refused undo are committed to the file although they are '
                'not in the index (the running storage and a scan of the '
                'file disagree)')
        return st

    for nid in g.reachable():
        for op in F.ops(g.nodes[nid]):
            if op.kind == 'call' and path_is(op.path,
                                             ('self', '_tfile', 'write')):
                writes[0] += 1
    R.instance('FileStorage.undo', buffer_writes=writes[0])
    R.require(writes[0] >= 1, 'undo no longer writes to the transaction '
              'buffer')
    vs, stats = explore(g, (None, frozenset()), at=at, edge=edge)
    R.count(stats)
    for v in vs[:1]:
        last = g.nodes[v.path[-2]] if len(v.path) > 1 else v.node
        R.violation(last, v.message, g, v.path,
                    key='failed undo leaves records in the buffer')


# ------------------------------------------------------------------ C06.R11
@rule('C06.R11', 'the data pointer _undoDataInfo reports for the current '
      'record is the position of the record it read -- for a record an '
      'earlier undo of the same transaction wrote into the buffer, the '
      'buffered record\'s position, not the committed one\'s -- or the '
      'record\'s backpointer', props=['C03'], min_instances=1)
def r11(R):
    cls = R.prog.cls(FS)
    f = R.method(cls, '_undoDataInfo')
    g, b, F = R.cfg(f, cls, max_depth=0)
    ps = [p for p in f.params if p != 'self']
    R.require(len(ps) >= 3, '_undoDataInfo(oid, pos, tpos) changed')
    committed, buffered = ps[1], ps[2]
    seen = [0]

    def edge(node, st, lab, tgt):
        branch, kinds = st
        kinds = dict(kinds)
        if node.kind == 'test' and lab in ('T', 'F') and branch is None:
            for e, truth in implied_atoms(node.ast, lab):
                if isinstance(e, ast.Name) and e.id == buffered and \
                        kinds.get(buffered, 'buffered-pos') == 'buffered-pos':
                    branch = 'buffered' if truth else 'committed'
        if lab in ('e', 'eb'):
            return (branch, frozenset(kinds.items()))
        for op in F.ops(node):
            if op.kind == 'store' and op.path and op.path[0] == '%local':
                v = store_value(op)
                k = 'other'
                if isinstance(v, ast.Name):
                    k = kinds.get(v.id, 'committed-pos' if v.id == committed
                                  else 'buffered-pos' if v.id == buffered
                                  else 'other')
                elif isinstance(v, ast.Attribute) and v.attr == 'back':
                    k = 'backpointer'
                kinds[op.path[1]] = k
        return (branch, frozenset(kinds.items()))

    def at(node, st):
        branch, kinds = st
        kinds = dict(kinds)
        if node.kind == 'return' and isinstance(node.ast.value, ast.Tuple) \
                and len(node.ast.value.elts) == 3:
            seen[0] += 1
            e = node.ast.value.elts[1]
            if isinstance(e, ast.Name):
                k = kinds.get(e.id, 'committed-pos' if e.id == committed
                              else 'buffered-pos' if e.id == buffered
                              else 'other')
                if branch == 'buffered' and k == 'committed-pos':
                    return Violation(
                        '_undoDataInfo reads the record an earlier undo of '
                        'this transaction wrote into the buffer but reports '
                        'the COMMITTED record\'s position as its data '
                        'pointer: _transactionalUndoRecord then finds '
                        '"current pointer == record being undone", skips '
                        'its comparison and writes a plain backpointer -- '
                        'the effect of the earlier undo is silently lost')
        return st

    vs, stats = explore(g, (None, frozenset()), at=at, edge=edge)
    R.count(stats)
    R.instance('FileStorage._undoDataInfo')
    R.require(seen[0] or vs, '_undoDataInfo no longer returns (tid, pointer, '
              'data)')
    for v in vs:
        R.violation(v.node, v.message, g, v.path)


# ------------------------------------------------------------------ C06.R12
@rule('C06.R12', 'what an undo-log entry says itself -- above all the id '
      'that undo() is given -- is not replaced by the transaction\'s '
      'extension: the extension is merged UNDER the entry\'s own fields',
      min_instances=1)
def r12(R):
    us = R.prog.cls('ZODB.FileStorage.FileStorage.UndoSearch')
    f = R.method(us, '_readnext')
    g, b, F = R.cfg(f, us, max_depth=0)
    # locals holding the entry (a dict display with the key 'id') and the
    # unpickled extension
    entries, exts = set(), set()
    for s in walk_local(f.node):
        if isinstance(s, ast.Assign) and isinstance(s.targets[0], ast.Name):
            if isinstance(s.value, ast.Dict) and any(
                    isinstance(k, ast.Constant) and k.value == 'id'
                    for k in s.value.keys):
                entries.add(s.targets[0].id)
            if isinstance(s.value, ast.Call) and dotted(s.value.func) and \
                    dotted(s.value.func)[-1] == 'loads':
                exts.add(s.targets[0].id)
    R.require(entries, 'UndoSearch._readnext no longer builds the entry')
    R.instance('UndoSearch._readnext', entry=sorted(entries),
               extension=sorted(exts))
    for c in walk_local(f.node):
        if isinstance(c, ast.Call) and isinstance(c.func, ast.Attribute) and \
                c.func.attr == 'update' and isinstance(
                    c.func.value, ast.Name) and c.func.value.id in entries \
                and c.args and isinstance(c.args[0], ast.Name) and \
                c.args[0].id in exts:
            R.violation(
                (f.module.relpath, f.qualname,
                 ' '.join(ast.unparse(c).split()), c.lineno),
                'the undo-log entry is updated WITH the transaction\'s '
                'extension: an extension that has the key `id` (or `time`, '
                '`user_name`, `description`, `size`) replaces what the '
                'storage says; the id taken from the log then names no '
                'transaction, or another one, when it is given to undo()',
                key='extension overrides the entry')
        # subscript stores from the extension over the entry's keys
    for s in walk_local(f.node):
        if isinstance(s, ast.For) and isinstance(s.iter, ast.Name) and \
                s.iter.id in exts:
            for x in ast.walk(s):
                if isinstance(x, ast.Assign) and isinstance(
                        x.targets[0], ast.Subscript) and isinstance(
                            x.targets[0].value, ast.Name) and \
                        x.targets[0].value.id in entries:
                    R.violation(
                        (f.module.relpath, f.qualname,
                         ' '.join(ast.unparse(x).split()), x.lineno),
                        'the undo-log entry\'s keys are overwritten from '
                        'the extension',
                        key='extension overrides the entry')


# ------------------------------------------------------------------ C06.R13
@rule('C06.R13', 'every walk backwards over the transaction log goes down to '
      'the same position, the end of the file\'s magic: the undo log and the '
      'search for the transaction to undo see the first transaction, however '
      'short it is (sibling agreement with lastInvalidations)',
      props=['C04'], min_instances=3)
def r13(R):
    fs = R.prog.cls(FS)
    us = R.prog.cls('ZODB.FileStorage.FileStorage.UndoSearch')
    walkers = [(fs, 'lastInvalidations'), (fs, '_txn_find'),
               (us, 'finished')]
    bounds = {}
    for cls, meth in walkers:
        f = R.method(cls, meth)
        # the walking position, by role: a local that is moved back by a
        # length read from the file (`p = p - u64(read(8)) - 8`), or the
        # search object's `pos` attribute
        movers = set()
        for a in walk_local(f.node):
            if isinstance(a, ast.Assign) and any(
                    isinstance(x, ast.Call) and dotted(x.func) and
                    dotted(x.func)[-1] == 'u64' for x in ast.walk(a.value)):
                movers |= {t.id for t in a.targets
                           if isinstance(t, ast.Name)}
        for c in walk_local(f.node):
            if not (isinstance(c, ast.Compare) and len(c.ops) == 1):
                continue
            from ..flow import cmp_sides
            for l, op, r in cmp_sides(c):
                ld = dotted(l)
                if ld and (ld == ('self', 'pos') or (
                        len(ld) == 1 and ld[0] in movers)) and isinstance(
                        r, ast.Constant) and isinstance(r.value, int) and \
                        not isinstance(r.value, bool):
                    # "the walk goes on while pos > K"
                    k = {ast.Gt: r.value, ast.GtE: r.value - 1,
                         ast.Lt: r.value - 1, ast.LtE: r.value}.get(op)
                    if k is not None:
                        bounds[(cls.name, meth)] = (k, c)
    R.require(len(bounds) >= 3, 'backward walks found: %s' % sorted(bounds))
    ref = bounds.get(('FileStorage', 'lastInvalidations'))
    for (cn, meth), (k, c) in sorted(bounds.items()):
        R.instance('%s.%s walks back while pos > %d' % (cn, meth, k))
        if ref is not None and k != ref[0]:
            f = R.method(fs if cn == 'FileStorage' else us, meth)
            R.violation(
                (f.module.relpath, f.qualname,
                 ' '.join(ast.unparse(c).split()), c.lineno),
                '%s.%s stops walking back at position %d, lastInvalidations '
                'at %d (the end of the magic): a first transaction that '
                'ends below that position -- no records, next to no '
                'metadata: 31 bytes -- is never shown by undoLog() and '
                'cannot be named to undo(), although iterator() reports it'
                % (cn, meth, k, ref[0]),
                key='backward walk stops short of the first transaction')


# ------------------------------------------------------------------ C06.R14
@rule('C06.R14', 'an undo that is refused has put nothing in the blob '
      'directory: in _txn_undo_write no blob file is stored on a path on '
      'which the undo can still be refused (a deliberate raise follows)',
      props=['C13', 'C05'], min_instances=1)
def r14(R):
    cls = R.prog.cls(FS)
    f = R.method(cls, '_txn_undo_write')
    g, b, F = R.cfg(f, cls, max_depth=0)
    seen = [0]

    def stores_blob(node):
        return any(op.kind == 'call' and op.path is not None and
                   op.path[-1] in ('_blob_storeblob', 'storeBlob',
                                   'rename_or_copy_blob')
                   for op in F.ops(node))

    def edge(node, st, lab, tgt):
        if lab in ('e', 'eb'):
            return st
        if stores_blob(node):
            seen[0] += 1
            return True
        return st

    def at(node, st):
        if st and node.kind == 'raise' and node.frame.parent is None and \
                isinstance(node.ast, ast.Raise) and node.ast.exc is not None:
            return Violation(
                '_txn_undo_write stores a blob file and can still refuse '
                'the undo afterwards (`%s`): the refusal is an exception of '
                'one call, the storage transaction may go on -- the copy '
                'stays as a file without a record, or, after a successful '
                'undo of the same blob in the same transaction, has '
                'replaced that undo\'s file: the committed record says one '
                'thing, the blob file another' %
                ' '.join(ast.unparse(node.ast).split())[:70])
        return st

    vs, stats = explore(g, False, at=at, edge=edge)
    R.count(stats)
    R.instance('FileStorage._txn_undo_write', blob_stores=seen[0])
    R.require(seen[0] >= 1, '_txn_undo_write no longer stores the blob file '
              'of an undone blob change')
    for v in vs[:1]:
        R.violation(v.node, v.message, g, v.path,
                    key='blob stored before the undo can no longer be '
                        'refused')


# ------------------------------------------------------------------ C06.R15
@rule('C06.R15', 'an undo enters its records in the temporary index only '
      'once it has succeeded: _txn_undo_write itself does not touch '
      'self._tindex (undo() rewinds the buffer of a refused undo -- entries '
      'made meanwhile would stay and point into whatever is written next)',
      props=['C09', 'C05'], min_instances=1)
def r15(R):
    cls = R.prog.cls(FS)
    f = R.method(cls, '_txn_undo_write')
    g, b, F = R.cfg(f, cls, max_depth=0)
    R.instance('FileStorage._txn_undo_write')
    for nid in g.reachable():
        nd = g.nodes[nid]
        for op in F.ops(nd):
            if op.path is not None and len(op.path) >= 2 and \
                    tuple(op.path[:2]) == ('self', '_tindex') and (
                        op.kind in ('setitem', 'store', 'delitem', 'aug') or
                        (op.kind == 'call' and op.path[-1] in (
                            'update', 'setdefault', 'pop', 'clear',
                            '__setitem__'))):
                R.violation(
                    nd, '_txn_undo_write changes self._tindex (`%s`) while '
                    'the undo can still be refused: undo() rewinds the '
                    'transaction buffer of a refused undo, the index '
                    'entries stay -- when the caller goes on and commits, '
                    'the running index maps an object to another object\'s '
                    'record; close() saves that index and the next open '
                    'accepts it' %
                    ' '.join(ast.unparse(op.stmt).split())[:60],
                    key='temporary index changed before the undo succeeded')
                return
    # undo() itself enters them after the helper returned
    u = R.method(cls, 'undo')
    R.require(any(isinstance(c, ast.Call) and dotted(c.func) ==
                  ('self', '_tindex', 'update') for c in walk_local(u.node)),
              'undo() no longer enters the undo records in self._tindex')
