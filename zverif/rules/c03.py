"""C03 -- no lost updates."""

import ast

from ..engine import rule
from ..flow import PRUNE, Violation, cmp_sides, explore, implied_atoms, \
    path_ends, path_is, \
    prov_has, provenance, raising_node, store_value, strip_not, truth_test
from ..locks import lock_delta
from ..model import dotted, walk_local
from ..twopc import DS, FS, MS, identity_guard

CONN = 'ZODB.Connection.Connection'

STORES = [
    # class, method, staging matcher name, must the differ branch raise?
    (FS, 'store', 'fs', False),
    (FS, 'deleteObject', 'fs', True),
    (MS, 'store', 'ms', True),
    (DS, 'store', 'ds', False),
]


def staging_ops(F, node, kind):
    out = []
    for op in F.ops(node):
        if kind == 'fs':
            if op.kind == 'setitem' and path_is(op.path, ('self', '_tindex')):
                out.append(op)
            if op.kind == 'call' and path_is(op.path,
                                             ('self', '_tfile', 'write')):
                out.append(op)
        elif kind == 'ms':
            if op.kind == 'setitem' and path_is(op.path, ('self', '_tdata')):
                out.append(op)
        elif kind == 'ds':
            if op.kind == 'call' and path_is(op.path,
                                             ('self', 'changes', 'store'),
                                             ('self', 'changes', 'storeBlob')):
                out.append(op)
    return out


def serial_comparison(node, F, serial, oid):
    """-> ('T'|'F' label of the DIFFER branch, ok_operator) or None."""
    if node.kind != 'test' or node.frame.parent is not None:
        return None
    inner, pol = strip_not(node.ast)
    if not (isinstance(inner, ast.Compare) and len(inner.ops) == 1):
        return None
    a, b = inner.left, inner.comparators[0]
    for x, y in ((a, b), (b, a)):
        if isinstance(x, ast.Name) and x.id == serial:
            pv = provenance(y, node.frame, F)
            if ('param', oid) in pv and not isinstance(y, ast.Constant):
                op = inner.ops[0]
                if isinstance(op, (ast.NotEq, ast.IsNot)):
                    return ('T' if pol else 'F', True)
                if isinstance(op, (ast.Eq, ast.Is)):
                    return ('F' if pol else 'T', True)
                return ('T', False)
    return None


def existence_test(node, F, serial, oid):
    """Truth test of a value looked up by oid: -> label of the ABSENT branch."""
    if node.kind != 'test' or node.frame.parent is not None:
        return None
    e, truthy_when_true, none_test = truth_test(node.ast)
    if not isinstance(e, ast.Name) or e.id in (serial, oid):
        return None
    pv = provenance(e, node.frame, F)
    if ('param', oid) not in pv:
        return None
    if not (prov_has(pv, 'call', lambda p: p[-1] in ('_index_get', 'get'))
            or prov_has(pv, 'path', lambda p: p[-1] in ('_index', '_data'))):
        return None
    return 'F' if truthy_when_true else 'T'


@rule('C03.R1', 'store compares the caller\'s serial with the committed tid '
      'on every path to staging; a differing serial stages only resolved '
      'data or raises', min_instances=4)
def r1(R):
    for q, meth, kind, must_raise in STORES:
        cls = R.prog.cls(q)
        f = R.method(cls, meth)
        g, b, F = R.cfg(f, cls, max_depth=2)
        params = [p for p in f.params if p != 'self']
        oid, serial = params[0], params[1]
        name = '%s.%s' % (cls.name, meth)
        seen = {'cmp': 0, 'stage': 0}
        resolved_names = set()

        def edge(node, st, lab, tgt, F=F, serial=serial, oid=oid, kind=kind,
                 seen=seen, name=name, resolved_names=resolved_names):
            cmp_, resolved = st
            sc = serial_comparison(node, F, serial, oid)
            if sc is not None and lab in ('T', 'F'):
                seen['cmp'] += 1
                if not sc[1]:
                    return Violation(
                        '%s compares the serial with the committed tid using '
                        '`%s`: a writer whose base is older AND one whose '
                        'base is newer must both be treated as conflicting' %
                        (name, ast.unparse(node.ast)))
                return ('differ' if lab == sc[0] else 'same', resolved)
            ex = existence_test(node, F, serial, oid)
            if ex is not None and lab == ex and cmp_ is None:
                return ('absent', resolved)
            if node.frame.parent is None:
                for op in F.ops(node):
                    if op.kind == 'call' and op.path is not None and \
                            op.path[-1] == 'tryToResolveConflict' and \
                            lab != 'e':
                        s = op.stmt
                        if isinstance(s, ast.Assign) and len(s.targets) == 1 \
                                and isinstance(s.targets[0], ast.Name):
                            resolved = s.targets[0].id
                            resolved_names.add(resolved)
                st_ops = staging_ops(F, node, kind)
                if st_ops:
                    seen['stage'] += 1
                    if cmp_ is None:
                        return Violation(
                            '%s stages a record on a path that never '
                            'compared the caller\'s serial with the committed '
                            'revision: a writer that started from an old '
                            'revision overwrites a newer one' % name)
                    if cmp_ == 'differ':
                        if not resolved:
                            return Violation(
                                '%s stages the caller\'s data although its '
                                'serial differs from the committed tid and no '
                                'conflict resolution took place' % name)
                        used = {n.id for op in st_ops
                                for n in ast.walk(op.stmt)
                                if isinstance(n, ast.Name)}
                        if kind in ('ds',) and resolved not in used:
                            return Violation(
                                '%s resolves the conflict but stages other '
                                'data than the resolver\'s result' % name)
            return (cmp_, resolved)

        def at(node, st, g=g, must_raise=must_raise, name=name):
            cmp_, resolved = st
            if node.id == g.exit_return and cmp_ == 'differ' and not resolved:
                return Violation('%s returns normally for a serial that '
                                 'differs from the committed tid without '
                                 'resolving: the conflict goes unreported' %
                                 name)
            return st

        vs, stats = explore(g, (None, False), at=at, edge=edge)
        R.count(stats)
        R.instance(name, comparisons=seen['cmp'], staging_sites=seen['stage'],
                   cfg_nodes=len(g.reachable()))
        R.require(vs or (seen['cmp'] and seen['stage']),
                  '%s: no serial comparison / staging site recognised (%s)' %
                  (name, seen))
        if kind == 'fs' and not must_raise and not vs:
            # the staged bytes are the resolver's result
            for rn in resolved_names:
                if rn != params[2]:
                    ok = any(isinstance(n, ast.Name) and n.id == rn
                             for node in (g.nodes[i] for i in g.reachable())
                             for op in staging_ops(F, node, kind)
                             for n in ast.walk(op.stmt))
                    if not ok:
                        R.violation((f.module.relpath, f.qualname,
                                     'resolved data flow'),
                                    '%s stages other data than the '
                                    'resolver\'s result' % name)
        for v in vs:
            R.violation(v.node, v.message, g, v.path, instance=name)
    R.named_exception('FileStorage.restore / BlobStorageMixin.restoreBlob',
                      'restore is defined as store without the conflict check '
                      '(C17)')


# ---------------------------------------------------------------- C03.R2

COMMIT_LOCK_SITES = {
    # function qualname -> allowed operations
    'ZODB.BaseStorage.BaseStorage.tpc_begin': {'acquire'},
    'ZODB.BaseStorage.BaseStorage.tpc_abort': {'release'},
    'ZODB.BaseStorage.BaseStorage.tpc_finish': {'release'},
    'ZODB.FileStorage.FileStorage.FileStorage.tpc_finish': {'release'},
    'ZODB.FileStorage.FileStorage.FileStorage.pack': {'release'},
    'ZODB.FileStorage.fspack.FileStoragePacker.pack': {'acquire', 'release'},
    'ZODB.FileStorage.fspack.FileStoragePacker.copyOne': {'acquire',
                                                          'release'},
    'ZODB.MappingStorage.MappingStorage.tpc_begin': {'acquire'},
    'ZODB.MappingStorage.MappingStorage.tpc_abort': {'release'},
    'ZODB.MappingStorage.MappingStorage.tpc_finish': {'release'},
    'ZODB.DemoStorage.DemoStorage.tpc_begin': {'acquire'},
    'ZODB.DemoStorage.DemoStorage.tpc_abort': {'release'},
    'ZODB.DemoStorage.DemoStorage.tpc_finish': {'release'},
}


def commit_lock_sites(R):
    """Every syntactic acquire/release of a commit lock in the scope."""
    out = []
    for f in R.prog.all_functions():
        src_hit = False
        for n in walk_local(f.node):
            if isinstance(n, ast.Attribute) and (
                    '_commit_lock' in n.attr):
                src_hit = True
                break
        if not src_hit:
            continue
        g, b, F = R.cfg(f, f.cls, max_depth=0)
        for nid in range(len(g.nodes)):
            node = g.nodes[nid]
            for op in F.ops(node):
                if op.kind == 'call' and op.path is not None and \
                        path_ends(op.path, ('_commit_lock', 'acquire'),
                                  ('_commit_lock', 'release')):
                    out.append((f, op.path[-1], op))
        # `with x._commit_lock:` regions
        for node in g.nodes:
            if node.kind == 'acq' and node.info.get('lock') and \
                    node.info['lock'][-1] == '_commit_lock':
                out.append((f, 'with', None))
    return out


@rule('C03.R2', 'the commit lock is acquired only by tpc_begin (and the '
      'packer hand-over), never under the storage lock, and released only by '
      'tpc_finish / tpc_abort / the packer', props=['C05', 'C08'],
      min_instances=15)
def r2(R):
    sites = commit_lock_sites(R)
    for f, what, op in sites:
        R.instance('%s: %s' % (f.short, what))
        allowed = COMMIT_LOCK_SITES.get(f.qualname, set())
        if what not in allowed:
            R.violation((f.module.relpath, f.qualname,
                         ast.unparse(op.ast) if op is not None
                         else 'with commit lock',
                         getattr(op.ast, 'lineno', None) if op else None),
                        '%s performs `%s` on the commit lock; only tpc_begin '
                        'may acquire it and only tpc_finish / tpc_abort / the '
                        'packer hand-over may release it, otherwise two '
                        'two-phase commits can interleave' % (f.short, what))
    # never acquired while the storage lock is held
    for q in (FS, MS, DS):
        cls = R.prog.cls(q)
        f = R.method(cls, 'tpc_begin')
        g, b, F = R.cfg(f, cls)

        def edge(node, st, lab, tgt, F=F):
            held = st
            if node.kind in ('acq', 'rel'):
                return max(0, held + lock_delta(F, node))
            for op in F.ops(node):
                if op.kind == 'call' and op.path is not None:
                    if path_ends(op.path, ('_lock', 'acquire'),
                                 ('_lock_acquire',)):
                        held += 1
                    elif path_ends(op.path, ('_lock', 'release'),
                                   ('_lock_release',)):
                        held = max(0, held - 1)
                    elif path_ends(op.path, ('_commit_lock', 'acquire')) \
                            and held > 0:
                        return Violation(
                            'tpc_begin waits for the commit lock while '
                            'holding the storage lock: the committing thread '
                            'needs the storage lock to finish, so both block '
                            'for ever')
            return held

        vs, stats = explore(g, 0, edge=edge)
        R.count(stats)
        R.instance('%s.tpc_begin lock nesting' % cls.name)
        for v in vs:
            R.violation(v.node, v.message, g, v.path)


# ---------------------------------------------------------------- C03.R4

@rule('C03.R4', 'objects declared as read dependencies are verified inside '
      'the commit and a conflict propagates', min_instances=2)
def r4(R):
    cls = R.prog.cls(CONN)
    f = R.method(cls, 'commit')
    g, b, F = R.cfg(f, cls, max_depth=0)
    loops = []
    checks = []
    for nid in g.reachable():
        node = g.nodes[nid]
        if node.kind == 'foriter':
            for op in F.ops(node):
                if op.kind == 'call' and path_is(
                        op.path, ('self', '_readCurrent', 'items')):
                    loops.append(node)
        for op in F.ops(node):
            if op.kind == 'call' and op.path is not None and \
                    op.path[-1] == 'checkCurrentSerialInTransaction':
                checks.append((node, op))
    if not loops or not checks:
        R.violation((f.module.relpath, f.qualname, 'readCurrent loop'),
                    'Connection.commit no longer verifies the objects in '
                    '_readCurrent against the storage')
        return
    forstmt = loops[0].info['stmt']
    tnames = [e.id for e in ast.walk(forstmt.target)
              if isinstance(e, ast.Name)]
    node, op = checks[0]
    argn = [a.id if isinstance(a, ast.Name) else None for a in op.ast.args]
    R.instance('Connection.commit readCurrent loop',
               stmt=ast.unparse(op.ast)[:90])
    if argn[:2] != tnames[:2]:
        R.violation(node, 'the read-dependency check is not called with the '
                    '(oid, serial) pairs recorded by readCurrent')
    loop_ids = {l.id for l in loops}
    head_ids = {t for l in loops for t, lab in l.succ if lab == 'n'}

    def edge(nd, st, lab, tgt):
        phase, failed = st
        # phase 0: before the loop, 1: in loop, 2: loop exhausted
        if nd.id in head_ids and nd.kind == 'for':
            if lab == 'T':
                phase = 1
            elif lab == 'F':
                phase = 2
        if nd is node and lab == 'e':
            failed = True
        if failed and nd.kind == 'for' and nd.id in head_ids:
            return Violation('a failed read-dependency check does not stop '
                             'the commit (the loop continues)')
        return (phase, failed)

    def at(nd, st):
        phase, failed = st
        if nd.id == g.exit_return:
            if failed:
                return Violation('a conflict on an object the transaction '
                                 'declared it depends on is swallowed: the '
                                 'commit goes on')
            if phase != 2:
                return Violation('Connection.commit can return without '
                                 'having verified every read dependency')
        return st

    vs, stats = explore(g, (0, False), at=at, edge=edge)
    R.count(stats)
    for v in vs:
        R.violation(v.node if v.node.id not in (g.exit_return,) else node,
                    v.message, g, v.path)
    # the checker itself
    cf = R.prog.func('ZODB.BaseStorage.checkCurrentSerialInTransaction')
    bs = R.prog.cls(FS)
    g2, b2, F2 = R.cfg(cf, bs, max_depth=0)
    cmp_nodes = []
    for nid in g2.reachable():
        n2 = g2.nodes[nid]
        if n2.kind == 'test' and isinstance(n2.ast, ast.Compare) and \
                len(n2.ast.ops) == 1:
            names = [x.id for x in (n2.ast.left, n2.ast.comparators[0])
                     if isinstance(x, ast.Name)]
            if 'serial' in names:
                other = [x for x in (n2.ast.left, n2.ast.comparators[0])
                         if not (isinstance(x, ast.Name) and x.id == 'serial')]
                pv = provenance(other[0], n2.frame, F2) if other else set()
                if prov_has(pv, 'call', lambda p: p[-1] == 'getTid'):
                    cmp_nodes.append(n2)
    R.instance('checkCurrentSerialInTransaction comparison',
               found=len(cmp_nodes))
    if not cmp_nodes:
        R.violation((cf.module.relpath, cf.qualname, 'serial comparison'),
                    'checkCurrentSerialInTransaction no longer compares '
                    'getTid(oid) with the serial the reader saw')
        return
    n2 = cmp_nodes[0]
    opx = n2.ast.ops[0]
    if not isinstance(opx, (ast.NotEq, ast.Eq)):
        R.violation(n2, 'read-dependency check uses `%s`: any difference '
                    '(older or newer) must raise' % ast.unparse(n2.ast))
        return
    differ = 'T' if isinstance(opx, ast.NotEq) else 'F'

    def edge3(nd, st, lab, tgt):
        if nd is n2 and lab == differ:
            return True
        return st

    def at3(nd, st):
        if st and nd.id == g2.exit_return:
            return Violation('a changed read dependency does not raise')
        return st

    vs3, stats3 = explore(g2, False, at=at3, edge=edge3)
    for v in vs3:
        R.violation(n2, v.message, g2, v.path)


# ---------------------------------------------------------- C03.R5 / R6 / R7

def STORE_HELPERS(t, fr):
    """_store_objects and the helpers it is split into"""
    return t.func.name.startswith('_store_objects')


def store_calls(F, node):
    out = []
    for op in F.ops(node):
        if op.kind == 'call' and path_is(op.path,
                                         ('self', '_storage', 'store'),
                                         ('self', '_storage', 'storeBlob')):
            out.append(op)
    return out


@rule('C03.R5', 'the serial handed to the storage is the one the object was '
      'loaded with', min_instances=3)
def r5(R):
    cls = R.prog.cls(CONN)
    f = R.method(cls, '_store_objects')
    g, b, F = R.cfg(f, cls, max_depth=2, inline=STORE_HELPERS)
    n = 0
    for nid in sorted(g.reachable()):
        node = g.nodes[nid]
        for op in store_calls(F, node):
            n += 1
            R.instance('_store_objects: %s' % ast.unparse(op.ast.func),
                       stmt=ast.unparse(op.ast)[:80])
            if len(op.ast.args) < 2:
                continue
            pv = provenance(op.ast.args[1], node.frame, F)
            if not (('attr', '_p_serial') in pv or
                    ('const', '_p_serial') in pv):
                R.violation(node, 'the old serial passed to the storage does '
                            'not derive from the object\'s _p_serial: the '
                            'storage cannot detect that the writer started '
                            'from a stale revision')
            elif prov_has(pv, 'call', lambda p: p[-1] in (
                    'getTid', 'lastTransaction', 'load', 'loadBefore')):
                R.violation(node, 'the old serial passed to the storage is '
                            'refreshed from the storage at commit time, '
                            'which defeats conflict detection')
    f2 = R.method(cls, '_commit_savepoint')
    g2, b2, F2 = R.cfg(f2, cls, max_depth=0)
    for nid in sorted(g2.reachable()):
        node = g2.nodes[nid]
        for op in store_calls(F2, node):
            n += 1
            R.instance('_commit_savepoint: %s' % ast.unparse(op.ast.func),
                       stmt=ast.unparse(op.ast)[:80])
            pv = provenance(op.ast.args[1], node.frame, F2) \
                if len(op.ast.args) > 1 else set()
            if not prov_has(pv, 'call', lambda p: p[-2:] == ('src', 'load')
                            or p[-1] == 'load'):
                R.violation(node, 'the serial replayed from the savepoint '
                            'store is not the one recorded by the savepoint')
    R.require(n >= 3, 'store call sites vanished (%d)' % n)


@rule('C03.R6', 'an oid is recorded as modified or creating before it is '
      'handed to the storage, so a conflicting copy is invalidated on abort',
      props=['C11'], min_instances=2)
def r6(R):
    cls = R.prog.cls(CONN)
    f = R.method(cls, '_store_objects')
    g, b, F = R.cfg(f, cls, max_depth=2, inline=STORE_HELPERS)
    sites = [0]
    wparam = [p for p in f.params if p != 'self'][0]

    def edge(node, st, lab, tgt):
        if node.kind == 'for' and lab == 'T' and dotted(node.ast.iter) and \
                F.canon(node.ast.iter, node.frame) == ('%param', wparam):
            return False            # next object
        for op in F.ops(node):
            if op.kind == 'call' and path_is(
                    op.path, ('self', '_modified', 'append')):
                st = True
            if op.kind == 'setitem' and path_is(op.path,
                                                ('self', '_creating')):
                st = True
            if op.kind == 'call' and path_is(op.path,
                                             ('self', '_modified', 'pop')):
                st = False
        if store_calls(F, node):
            sites[0] += 1
            if not st:
                return Violation('an object is handed to the storage before '
                                 'its oid is recorded in _modified/_creating: '
                                 'if the store raises a conflict the stale '
                                 'copy is never invalidated')
        return st

    vs, stats = explore(g, False, edge=edge)
    R.count(stats)
    for nid in sorted(g.reachable()):
        if store_calls(F, g.nodes[nid]):
            R.instance('store site', stmt=g.nodes[nid].text(80))
    for v in vs:
        R.violation(v.node, v.message, g, v.path)


@rule('C03.R7', 'a declared read dependency is dropped only when the write '
      'that supersedes it has reached the real storage', props=['C12'],
      min_instances=2)
def r7(R):
    cls = R.prog.cls(CONN)
    sites = 0
    for f in cls.methods.values():
        if not any(isinstance(n, ast.Attribute) and n.attr == '_readCurrent'
                   for n in walk_local(f.node)):
            continue
        g, b, F = R.cfg(f, cls, max_depth=0)

        def drops(node):
            out = []
            for op in F.ops(node):
                if op.kind == 'call' and path_is(
                        op.path, ('self', '_readCurrent', 'pop'),
                        ('self', '_readCurrent', 'clear'),
                        ('self', '_readCurrent', 'popitem')):
                    out.append(op)
                if op.kind in ('delitem',) and path_is(
                        op.path, ('self', '_readCurrent')):
                    out.append(op)
                if op.kind == 'store' and path_is(
                        op.path, ('self', '_readCurrent')) and \
                        f.name != '__init__':
                    out.append(op)
            return out

        def edge(node, st, lab, tgt, F=F):
            # st: True once "no savepoint store is active" is established
            if node.kind == 'test' and lab in ('T', 'F'):
                e, truthy_when_true, none_test = truth_test(node.ast)
                p = F.canon(e, node.frame) if dotted(e) else None
                if p == ('self', '_savepoint_storage'):
                    truthy = truthy_when_true if lab == 'T' else \
                        not truthy_when_true
                    return (not truthy)
            for op in F.ops(node):
                if op.kind == 'store' and lab != 'e' and path_is(
                        op.path, ('self', '_savepoint_storage')):
                    v = store_value(op)
                    st = (v is not None and isinstance(v, ast.Constant)
                          and v.value is None)
            return st

        def at(node, st, f=f):
            d = drops(node)
            if d:
                if f.name == 'newTransaction':
                    return st
                if not st:
                    return Violation(
                        'a read dependency is forgotten when its object is '
                        'stored while a savepoint store may be active: after '
                        'a rollback of that savepoint the dependency is gone '
                        'and a concurrent change goes undetected')
            return st

        vs, stats = explore(g, False, at=at, edge=edge)
        R.count(stats)
        for nid in sorted(g.reachable()):
            if drops(g.nodes[nid]):
                sites += 1
                R.instance('%s drops a dependency' % f.short,
                           stmt=g.nodes[nid].text(70))
        for v in vs:
            R.violation(v.node, v.message, g, v.path)
    R.require(sites >= 2, 'no _readCurrent drop sites found')


@rule('C03.R8', 'readCurrent records the dependency on every path (only a '
      'new object, which has no committed revision, is exempt)',
      min_instances=1)
def r8(R):
    cls = R.prog.cls(CONN)
    f = R.method(cls, 'readCurrent')
    g, b, F = R.cfg(f, cls, max_depth=0)
    R.instance('Connection.readCurrent')
    from ..flow import implied_atoms

    def edge(node, st, lab, tgt):
        if node.kind == 'test' and lab in ('T', 'F'):
            for e, truth in implied_atoms(node.ast, lab):
                if isinstance(e, ast.Compare) and len(e.ops) == 1 and any(
                        isinstance(x, ast.Attribute) and x.attr == '_p_serial'
                        for x in (e.left, e.comparators[0])) and any(
                            dotted(x) == ('z64',)
                            for x in (e.left, e.comparators[0])):
                    is_new = isinstance(e.ops[0], ast.Eq) == truth
                    if is_new:
                        return 'new'
        if lab != 'e':
            for op in F.ops(node):
                if op.kind == 'setitem' and path_is(op.path,
                                                    ('self', '_readCurrent')):
                    return 'recorded'
        return st

    def at(node, st):
        if node.id == g.exit_return and st not in ('recorded', 'new'):
            return Violation(
                'readCurrent can return without recording the object\'s '
                'serial: the transaction then commits although the object '
                'it declared it depends on was changed concurrently (e.g. '
                'when the object was dirty at the time and the change is '
                'later rolled back)')
        return st

    vs, stats = explore(g, 'none', at=at, edge=edge)
    R.count(stats)
    for v in vs:
        R.violation((f.module.relpath, f.qualname, 'dependency recorded'),
                    v.message, g, v.path)


# ------------------------------------------------------------------ C03.R9
@rule('C03.R9', 'a read dependency is accepted only after the committed '
      'revision id of the object was obtained and found EQUAL to the one '
      'read; anything else raises', min_instances=1)
def r9(R):
    n = 0
    for f in R.prog.all_functions():
        if f.name != 'checkCurrentSerialInTransaction' or \
                f.module.name.endswith('interfaces'):
            continue
        ps = [p for p in f.params if p != 'self']
        if len(ps) < 3:
            continue
        # pure delegation (adapter): the callee is checked instead
        body = [s_ for s_ in f.node.body if not (isinstance(
            s_, ast.Expr) and isinstance(s_.value, ast.Constant))]
        if len(body) == 1 and isinstance(body[0], (ast.Return, ast.Expr)) \
                and isinstance(body[0].value, ast.Call) and dotted(
                    body[0].value.func) and dotted(
                        body[0].value.func)[-1] == f.name:
            continue
        n += 1
        serial = ps[1]
        g, b, F = R.cfg(f, f.cls, max_depth=0)
        R.instance('%s' % f.qualname)

        def edge(node, st, lab, tgt, serial=serial, F=F):
            if node.kind == 'test' and lab in ('T', 'F'):
                for e, truth in implied_atoms(node.ast, lab):
                    for l, op, r in cmp_sides(e):
                        if isinstance(r, ast.Name) and r.id == serial and \
                                op in (ast.Eq, ast.NotEq):
                            pv = provenance(l, node.frame, F)
                            if prov_has(pv, 'call', lambda p: p[-1] in (
                                    'getTid', 'load', 'loadBefore',
                                    'lastTid', '_lookup_pos')):
                                if (op is ast.Eq) == truth:
                                    return 'equal'
            return st

        def at(node, st, g=g):
            if node.id == g.exit_return and st != 'equal':
                return Violation(
                    'checkCurrentSerialInTransaction can return normally '
                    'without having found the committed revision id equal '
                    'to the serial the transaction read (for instance when '
                    'the object has vanished): the commit goes through '
                    'although what it read is no longer current')
            return st

        vs, stats = explore(g, 'start', at=at, edge=edge)
        R.count(stats)
        for v in vs:
            R.violation(v.node, v.message, g, v.path)
    R.require(n >= 1, 'no checkCurrentSerialInTransaction implementation '
              'found')


# ----------------------------------------------------------------- C03.R10
@rule('C03.R10', 'a dependency declared with readCurrent() is one that the '
      'commit will check: the connection has joined the transaction when it '
      'records it, and the serial it records is that of a loaded object (a '
      'ghost carries none)', min_instances=1)
def r10(R):
    conn = R.prog.cls(CONN)
    f = R.method(conn, 'readCurrent')
    g, b, F = R.cfg(f, conn, max_depth=0)
    ob = [p for p in f.params if p != 'self'][0]
    seen = [0]

    def edge(node, st, lab, tgt):
        joined, loaded = st
        if node.kind == 'test' and lab in ('T', 'F'):
            for e, truth in implied_atoms(node.ast, lab):
                if dotted(e) == ('self', '_needs_to_join') and not truth:
                    joined = True
                if isinstance(e, ast.Compare) and len(e.ops) == 1 and \
                        dotted(e.left) == (ob, '_p_changed') and isinstance(
                            e.comparators[0], ast.Constant) and \
                        e.comparators[0].value is None:
                    if isinstance(e.ops[0], ast.IsNot) == truth:
                        loaded = True
        if lab in ('e', 'eb'):
            return (joined, loaded)
        for op in F.ops(node):
            if op.kind == 'call' and isinstance(
                    op.ast.func, ast.Attribute) and \
                    op.ast.func.attr == 'join' and \
                    any(isinstance(a, ast.Name) and a.id == 'self'
                        for a in op.ast.args):
                joined = True
            if op.kind == 'call' and op.path and len(op.path) >= 2 and \
                    op.path[-1] in ('_p_activate', 'setstate') and (
                        op.path[-2] == ob or any(
                            isinstance(a, ast.Name) and a.id == ob
                            for a in op.ast.args)):
                loaded = True
        return (joined, loaded)

    def make_at(clause):
        def at(node, st):
            joined, loaded = st
            for op in F.ops(node):
                if op.kind == 'setitem' and path_is(
                        op.path, ('self', '_readCurrent')):
                    seen[0] += 1
                    if clause == 'join' and not joined:
                        return Violation(
                            'readCurrent records the dependency on a path '
                            'on which the connection has not joined the '
                            'transaction: a transaction that writes only '
                            'through another connection (multi-database), '
                            'or nothing through this one, commits without '
                            'the dependency ever being checked')
                    if clause == 'ghost' and not loaded:
                        return Violation(
                            'readCurrent records the serial of an object '
                            'that may be a ghost: a never-loaded ghost '
                            'carries the serial of a new object, nothing is '
                            'recorded, and the commit succeeds although the '
                            'object was changed (or un-created) meanwhile')
            return st
        return at

    vs = []
    for clause, key in (('join', 'dependency recorded without joining the '
                         'transaction'),
                        ('ghost', 'serial of a possible ghost recorded')):
        v1, stats = explore(g, (False, False), at=make_at(clause), edge=edge)
        R.count(stats)
        for v in v1[:1]:
            v.key = key
        vs.extend(v1[:1])
    R.instance('Connection.readCurrent')
    R.require(seen[0] or vs, 'readCurrent no longer records the dependency')
    for v in vs:
        R.violation(v.node, v.message, g, v.path, key=v.key)
