"""C11 -- in-memory objects follow the outcome of their transaction."""

import ast

from ..engine import rule
from ..flow import PRUNE, Violation, explore, implied_atoms, path_ends, \
    path_is, prov_has, provenance, raising_node, store_value
from ..model import dotted, walk_local
from .c05 import has_effect

CONN = 'ZODB.Connection.Connection'
WRITER = 'ZODB.serialize.ObjectWriter'


def grants(node):
    """names of objects given an owner by this statement: X._p_jar = <not
    None>"""
    out = set()
    s = node.ast
    if node.kind == 'stmt' and isinstance(s, ast.Assign):
        for t in s.targets:
            if isinstance(t, ast.Attribute) and t.attr == '_p_jar' and \
                    isinstance(t.value, ast.Name) and not (
                        isinstance(s.value, ast.Constant) and
                        s.value.value is None):
                out.add(t.value.id)
    return out


def disowns(node):
    out = set()
    s = node.ast
    if node.kind == 'stmt' and isinstance(s, ast.Delete):
        for t in s.targets:
            if isinstance(t, ast.Attribute) and t.attr == '_p_jar' and \
                    isinstance(t.value, ast.Name):
                out.add(t.value.id)
    return out


@rule('C11.R1', 'an object given an owner is recorded where abort finds it, '
      'or disowned, before anything can fail', min_instances=3)
def r1(R):
    conn = R.prog.cls(CONN)
    # ---- (a) Connection._add
    f = R.method(conn, '_add')
    g, b, F = R.cfg(f, conn, max_depth=0)
    R.instance('Connection._add')

    def recorded(node, name):
        for op in F.ops(node):
            if op.kind == 'setitem' and path_is(op.path, ('self', '_added'),
                                                ('self', '_cache')):
                v = op.stmt.value if isinstance(op.stmt, ast.Assign) else None
                if isinstance(v, ast.Name) and v.id == name:
                    return True
        return False

    def edge(node, st, lab, tgt):
        if lab != 'e':
            gr = grants(node)
            if gr:
                return ('granted', sorted(gr)[0])
        if st[0] == 'granted':
            if st[1] in disowns(node):
                return ('done', st[1])
            if lab != 'e' and recorded(node, st[1]):
                return ('done', st[1])
        return st

    def at(node, st):
        if st[0] == 'granted' and node.id == g.exit_raise:
            return Violation(
                '_add can fail after making the connection the owner of `%s` '
                'but before recording it in _added: the caller sees an error, '
                'yet the object stays owned -- a later add() is a silent '
                'no-op and a dangling reference gets committed' % st[1])
        if st[0] == 'granted' and node.id == g.exit_return:
            return Violation('_add returns without recording the object it '
                             'now owns')
        return st

    vs, stats = explore(g, ('none', None), at=at, edge=edge,
                        base_exceptions=True)
    R.count(stats)
    for v in vs:
        n = raising_node(g, v.path) if v.node.id == g.exit_raise else v.node
        R.violation(n, v.message, g, v.path)
    # ---- (b) Connection._store_objects
    f2 = R.method(conn, '_store_objects')
    g2, b2, F2 = R.cfg(f2, conn, max_depth=2,
                       inline=lambda t, fr: t.func.name.startswith(
                           '_store_objects'))
    wparam = [p for p in f2.params if p != 'self'][0]
    R.instance('Connection._store_objects: writer queue')
    R.instance('Connection._store_objects: object being stored')

    def is_writer(e, fr):
        p = F2.canon(e, fr) if dotted(e) else None
        return p == ('%param', wparam)

    def drain_loop(node):
        if node.kind != 'foriter':
            return False
        s = node.info['stmt']
        if not is_writer(s.iter, node.frame):
            return False
        return any(isinstance(x, ast.Delete) and any(
            isinstance(t, ast.Attribute) and t.attr == '_p_jar'
            for t in x.targets) for x in ast.walk(s))

    def edge2(node, st, lab, tgt):
        started, drained, unfindable = st
        if drain_loop(node):
            return (started, True, unfindable)
        if node.kind == 'for' and lab == 'T' and is_writer(
                node.ast.iter, node.frame) and not drain_loop_of(node):
            started = True
            unfindable = 'taken'       # popped from the queue, not recorded
        if unfindable == 'taken':
            if lab == 'e' and node.kind not in ('raise', 'reraise'):
                # only calls count: the tests and attribute reads between
                # taking the object and recording it cannot fail
                if not any(op.kind == 'call' and not F2.b.call_is_nonraising(
                        op.ast, node.frame) and not (
                            op.path and op.path[-1] == 'pop' and
                            len(op.ast.args) == 2)
                        for op in F2.ops(node)):
                    return PRUNE
            elif lab != 'e':
                for op in F2.ops(node):
                    if op.kind == 'call' and path_is(
                            op.path, ('self', '_modified', 'append')):
                        unfindable = None
        for op in F2.ops(node):
            if op.kind == 'setitem' and lab != 'e' and path_is(
                    op.path, ('self', '_creating')):
                unfindable = ast.dump(op.ast.slice)
            if op.kind == 'setitem' and path_is(op.path, ('self', '_cache')):
                # the attempt counts (it only fails for objects the cache
                # refuses, which the code after the store deals with)
                if unfindable == ast.dump(op.ast.slice):
                    unfindable = None
        return (started, drained, unfindable)

    def drain_loop_of(node):
        s = node.ast
        return any(isinstance(x, ast.Delete) and any(
            isinstance(t, ast.Attribute) and t.attr == '_p_jar'
            for t in x.targets) for x in ast.walk(s))

    def at2(node, st):
        started, drained, unfindable = st
        if node.id == g2.exit_raise and started:
            if unfindable == 'taken':
                return Violation(
                    'an object has been taken from the writer\'s queue but a '
                    'step that can fail (pickling it) comes before it is '
                    'recorded as creating/modified: if that step fails, '
                    'neither the queue nor _creating nor the cache knows the '
                    'object, and it stays owned by the connection')
            if unfindable is not None:
                return Violation(
                    'a new object is recorded in _creating but not yet in the '
                    'cache when a later step (serialising or storing it) '
                    'fails: abort looks creating objects up in the cache, '
                    'does not find it, and the object stays owned by the '
                    'connection')
            if not drained:
                return Violation(
                    'when storing fails, the objects still queued in the '
                    'writer (given an oid and this connection as owner while '
                    'their referrer was pickled) are known to nobody: they '
                    'stay owned, and a retry with the same instances commits '
                    'a reference to an object that is never stored')
        return st

    vs2, stats2 = explore(g2, (False, False, None), at=at2, edge=edge2,
                          base_exceptions=True)
    R.count(stats2)
    seen_msgs = set()
    for v in vs2:
        if v.message in seen_msgs:
            continue
        seen_msgs.add(v.message)
        key = 'object taken but not recorded' if 'taken from' in v.message \
            else ('creating object not findable' if 'cache' in v.message
                  else 'writer queue not drained')
        R.violation((f2.module.relpath, f2.qualname, key), v.message, g2,
                    v.path)
    R.named_exception('Connection.exchange', 'deprecated ZClasses hook '
                      'replacing an object that is already cached')


@rule('C11.R2', 'abort, tpc_abort and tpc_finish all end in the common '
      'cleanup', props=['C05', 'C12'], min_instances=3)
def r2(R):
    conn = R.prog.cls(CONN)
    for meth in ('abort', 'tpc_abort', 'tpc_finish'):
        f = R.method(conn, meth)
        g, b, F = R.cfg(f, conn, max_depth=0)
        R.instance('Connection.%s' % meth)

        def edge(node, st, lab, tgt, F=F):
            if lab != 'e':
                for op in F.ops(node):
                    if op.kind == 'call' and path_is(
                            op.path, ('self', '_tpc_cleanup')):
                        return True
            return st

        def at(node, st, g=g, meth=meth):
            if node.id == g.exit_return and not st:
                return Violation(
                    'Connection.%s can complete without _tpc_cleanup: the '
                    'connection stays joined and keeps its registered '
                    'objects, so the next transaction does not see its '
                    'changes' % meth)
            return st

        vs, stats = explore(g, False, at=at, edge=edge)
        R.count(stats)
        for v in vs:
            R.violation((f.module.relpath, f.qualname, '_tpc_cleanup'),
                        v.message, g, v.path)
    # the cleanup itself
    f = R.method(conn, '_tpc_cleanup')
    g, b, F = R.cfg(f, conn, max_depth=0)
    done = set()
    for op in F.all_ops():
        if op.kind == 'store' and path_is(op.path, ('self', '_needs_to_join')):
            v = store_value(op)
            if isinstance(v, ast.Constant) and v.value is True:
                done.add('join')
        if op.kind == 'store' and path_is(op.path,
                                          ('self', '_registered_objects')):
            done.add('registered')
        if op.kind == 'call' and path_is(op.path,
                                         ('self', '_creating', 'clear')):
            done.add('creating')
        if op.kind == 'store' and path_is(op.path, ('self', '_creating')):
            done.add('creating')
    missing = {'join', 'registered', 'creating'} - done
    if missing:
        R.violation((f.module.relpath, f.qualname, 'cleanup steps'),
                    '_tpc_cleanup no longer resets: %s' % ', '.join(
                        sorted(missing)))


@rule('C11.R3', 'finish marks every modified and every created object clean '
      'with the tid the storage returned', min_instances=1)
def r3(R):
    conn = R.prog.cls(CONN)
    f = R.method(conn, 'tpc_finish')
    g, b, F = R.cfg(f, conn, max_depth=0)
    R.instance('Connection.tpc_finish')
    loops = [n for n in walk_local(f.node) if isinstance(n, ast.For)]
    fields = set()
    for l in loops:
        for x in ast.walk(l.iter):
            if isinstance(x, ast.Attribute) and dotted(x) and \
                    dotted(x)[0] == 'self':
                fields.add(x.attr)
    missing = {'_modified', '_creating'} - fields
    if missing:
        R.violation((f.module.relpath, f.qualname, 'objects marked clean'),
                    'tpc_finish no longer visits the oids in %s: those '
                    'objects keep their old serial and the next write '
                    'conflicts with the connection\'s own commit' %
                    ', '.join(sorted(missing)))
    ser = [n for n in walk_local(f.node) if isinstance(n, ast.Assign) and any(
        isinstance(t, ast.Attribute) and t.attr == '_p_serial'
        for t in n.targets)]
    if not ser:
        R.violation((f.module.relpath, f.qualname, '_p_serial'),
                    'tpc_finish no longer sets _p_serial')
    for s in ser:
        pv = provenance(s.value, g.root, F)
        if not prov_has(pv, 'call', lambda p: p[-1] == 'tpc_finish'):
            R.violation((f.module.relpath, f.qualname,
                         ' '.join(ast.unparse(s).split()), s.lineno),
                        'the serial given to committed objects is not the '
                        'transaction id returned by the storage')
    chg = [n for n in walk_local(f.node) if isinstance(n, ast.Assign) and any(
        isinstance(t, ast.Attribute) and t.attr == '_p_changed'
        for t in n.targets)]
    if not chg:
        R.violation((f.module.relpath, f.qualname, '_p_changed'),
                    'tpc_finish no longer marks stored objects unchanged')


@rule('C11.R4', 'tpc_abort invalidates modified objects, disowns created and '
      'added ones, abort the connection\'s own created ones; every disown '
      'removes both owner and oid', props=['C05', 'C12'], min_instances=4)
def r4(R):
    conn = R.prog.cls(CONN)
    f = R.method(conn, 'tpc_abort')
    g, b, F = R.cfg(f, conn, max_depth=0)
    R.instance('Connection.tpc_abort')
    NEED = ('invalidate-modified', 'disown-creating', 'drain-added')

    def edge(node, st, lab, tgt):
        if lab == 'e':
            return st
        for op in F.ops(node):
            if op.kind == 'call' and path_is(
                    op.path, ('self', '_cache', 'invalidate')) and \
                    op.ast.args and ('path', ('self', '_modified')) in \
                    provenance(op.ast.args[0], node.frame, F):
                st = st | {'invalidate-modified'}
            if op.kind == 'call' and path_is(
                    op.path, ('self', '_invalidate_creating')):
                st = st | {'disown-creating'}
        if node.kind == 'test' and lab == 'F' and dotted(node.ast) == (
                'self', '_added'):
            st = st | {'drain-added'}
        return st

    def at(node, st):
        if node.id == g.exit_return:
            missing = [n for n in NEED if n not in st]
            if missing:
                return Violation('tpc_abort can complete without: %s' %
                                 ', '.join(missing))
        return st

    vs, stats = explore(g, frozenset(), at=at, edge=edge)
    R.count(stats)
    for v in vs:
        R.violation((f.module.relpath, f.qualname, 'abort steps'), v.message,
                    g, v.path)
    # abort(), the end of a transaction that never reached the two-phase
    # commit: it disowns the objects of the connection's OWN table on every
    # path (the savepoint store's table is another one: a savepoint that
    # failed half way has recorded what it stored so far in the own table)
    fa = R.method(conn, 'abort')
    ga, ba, Fa = R.cfg(fa, conn, max_depth=0)
    R.instance('Connection.abort')

    def edge_a(node, st, lab, tgt):
        if lab == 'e':
            return st
        for op in Fa.ops(node):
            if op.kind == 'call' and path_is(
                    op.path, ('self', '_invalidate_creating')) and \
                    not op.ast.args and not op.ast.keywords:
                st = True
        return st

    def at_a(node, st):
        if node.id == ga.exit_return and not st:
            return Violation(
                'Connection.abort can complete without disowning the '
                'objects of its own table of created objects (for instance '
                'when a savepoint store exists): an object stored by a '
                'savepoint that then failed stays owned and cached; a later '
                'transaction that links it commits a dangling reference')
        return st

    vs, stats = explore(ga, False, at=at_a, edge=edge_a)
    R.count(stats)
    for v in vs[:1]:
        R.violation((fa.module.relpath, fa.qualname,
                     'own created objects not disowned'), v.message, ga,
                    v.path)
    # pairing of the two deletions, everywhere in Connection
    n = 0
    for m in conn.methods.values():
        dels = [x for x in walk_local(m.node) if isinstance(x, ast.Delete)
                and any(isinstance(t, ast.Attribute) and t.attr in (
                    '_p_jar', '_p_oid') for t in x.targets)]
        if not dels:
            continue
        g2, b2, F2 = R.cfg(m, conn, max_depth=0)

        def deleted(node):
            out = set()
            if node.kind == 'stmt' and isinstance(node.ast, ast.Delete):
                for t in node.ast.targets:
                    if isinstance(t, ast.Attribute) and t.attr in (
                            '_p_jar', '_p_oid') and isinstance(
                                t.value, ast.Name):
                        out.add((t.value.id, t.attr))
            return out

        def edge3(node, st, lab, tgt):
            if lab == 'e':
                return st
            d = deleted(node)
            for name, attr in d:
                other = '_p_oid' if attr == '_p_jar' else '_p_jar'
                if (name, other) in st:
                    st = st - {(name, other)}
                else:
                    st = st | {(name, attr)}
            return st

        def at3(node, st, g2=g2, m=m):
            if st and (node.id == g2.exit_return or node.kind in (
                    'for', 'loophead')):
                name, attr = sorted(st)[0]
                return Violation(
                    '%s removes `%s.%s` but not its counterpart: the object '
                    'is half disowned (%s) and cannot be added again' % (
                        m.short, name, attr,
                        'still has an oid' if attr == '_p_jar'
                        else 'still has an owner'))
            return st

        vs3, stats3 = explore(g2, frozenset(), at=at3, edge=edge3)
        R.count(stats3)
        n += 1
        R.instance('%s disowns' % m.short, delete_statements=len(dels))
        for v in vs3:
            R.violation((m.module.relpath, m.qualname, 'disown pairing'),
                        v.message, g2, v.path)
    R.require(n >= 3, 'only %d disowning methods found' % n)


@rule('C11.R5', 'a connection joined to a transaction refuses to close',
      min_instances=1)
def r5(R):
    conn = R.prog.cls(CONN)
    f = R.method(conn, 'close')
    g, b, F = R.cfg(f, conn, max_depth=0)
    R.instance('Connection.close')
    guards = [0]

    # a primary connection closes the others of its group with it: what it
    # closes it must have found free too, BEFORE its own close has any
    # effect (a refusal that comes from a secondary's close() later leaves
    # the primary half closed)
    closes_group = any(
        isinstance(c, ast.Call) and isinstance(c.func, ast.Attribute) and
        c.func.attr == 'close' and isinstance(c.func.value, ast.Name) and
        c.func.value.id != 'self' for c in walk_local(f.node))
    group_checked = [False]

    def group_test(e):
        names = {x.attr for x in ast.walk(e) if isinstance(x, ast.Attribute)}
        return 'connections' in names and '_needs_to_join' in names

    def edge(node, st, lab, tgt):
        if node.kind == 'test' and lab in ('T', 'F'):
            if group_test(node.ast):
                group_checked[0] = True
            atoms = implied_atoms(node.ast, lab)
            for e, truth in atoms:
                if dotted(e) and F.canon(e, node.frame) == (
                        'self', '_needs_to_join'):
                    guards[0] += 1
                    return 'free' if truth else 'joined'
            # `not self._needs_to_join or <group joined>` taken false:
            # everything tested is free
            if any(isinstance(x, ast.Attribute) and x.attr == '_needs_to_join'
                   for x in ast.walk(node.ast)) and lab == 'F' and \
                    isinstance(node.ast, ast.BoolOp) and isinstance(
                        node.ast.op, ast.Or):
                guards[0] += 1
                return 'free'
            if any(isinstance(x, ast.Attribute) and x.attr == '_needs_to_join'
                   for x in ast.walk(node.ast)) and lab == 'T' and \
                    isinstance(node.ast, ast.BoolOp) and isinstance(
                        node.ast.op, ast.Or):
                guards[0] += 1
                return 'joined'
        if node.kind == 'test' and any(
                isinstance(x, ast.Attribute) and x.attr == '_needs_to_join'
                for x in ast.walk(node.ast)):
            return st               # the join test itself (may call any())
        if st != 'free' and has_effect(F, node):
            return Violation('Connection.close has an effect %s: closing in '
                             'the middle of a transaction silently drops or '
                             'keeps uncommitted state' % (
                                 'although the connection is joined to a '
                                 'transaction' if st == 'joined' else
                                 'before checking whether the connection is '
                                 'joined to a transaction'))
        return st

    def at(node, st):
        if node.id == g.exit_return and st == 'joined':
            return Violation('Connection.close returns normally while the '
                             'connection is joined to a transaction')
        return st

    vs, stats = explore(g, 'unknown', at=at, edge=edge)
    R.count(stats)
    R.require(guards[0] or vs, 'no join-state test in close')
    for v in vs:
        n = v.node if v.node.id != g.exit_return else (
            f.module.relpath, f.qualname, 'joined check')
        R.violation(n, v.message, g, v.path)
    if closes_group and not group_checked[0] and not vs:
        R.violation(
            (f.module.relpath, f.qualname, 'joined check of the group'),
            'Connection.close closes the other connections of its group '
            'after its own close has taken effect, without having looked at '
            'THEIR join state first: when only a secondary connection is '
            'joined, the close is refused by that secondary -- after the '
            'primary has run its callbacks and dropped its transaction '
            'manager: a refused close leaves the primary unusable',
            key='group closed without a join check up front')


@rule('C11.R6', 'an object that is given an oid while its referrer is '
      'pickled is queued for storing', props=['C14'], min_instances=2)
def r6(R):
    w = R.prog.cls(WRITER)
    f = R.method(w, 'persistent_id')
    g, b, F = R.cfg(f, w, max_depth=0)
    sites = [0]

    def oid_grant(node):
        s = node.ast
        if node.kind == 'stmt' and isinstance(s, ast.Assign):
            for t in s.targets:
                if isinstance(t, ast.Attribute) and t.attr == '_p_oid' and \
                        isinstance(t.value, ast.Name):
                    return t.value.id
        return None

    def edge(node, st, lab, tgt):
        og = oid_grant(node)
        if og is not None and lab != 'e':
            sites[0] += 1
            return og
        if st is not None:
            for op in F.ops(node):
                if op.kind == 'call' and path_is(
                        op.path, ('self', '_stack', 'append')) and \
                        op.ast.args and isinstance(op.ast.args[0], ast.Name) \
                        and op.ast.args[0].id == st and lab != 'e':
                    return None
            if lab == 'e':
                return Violation(
                    'a statement can fail between giving `%s` an oid and '
                    'queueing it for storing: the object is owned but will '
                    'never be stored' % st)
        return st

    def at(node, st):
        if st is not None and node.kind == 'return':
            return Violation(
                'persistent_id returns a reference to `%s`, which it just '
                'gave an oid, without queueing it for storing: the commit '
                'contains a reference to an object that does not exist' % st)
        return st

    vs, stats = explore(g, None, at=at, edge=edge)
    R.count(stats)
    R.instance('ObjectWriter.persistent_id', oid_grant_sites=sites[0])
    R.instance('queue', field='_stack')
    R.require(sites[0] >= 2 or vs, 'only %d oid-granting sites found' %
              sites[0])
    for v in vs:
        R.violation(v.node, v.message, g, v.path)


@rule('C11.R7', 'the connection records itself as joined only after the '
      'transaction accepted it', min_instances=1)
def r7(R):
    conn = R.prog.cls(CONN)
    f = R.method(conn, '_register')
    g, b, F = R.cfg(f, conn, max_depth=0)
    R.instance('Connection._register')
    seen = [0]

    def joined_store(node):
        for op in F.ops(node):
            if op.kind == 'store' and path_is(op.path,
                                              ('self', '_needs_to_join')):
                v = store_value(op)
                if isinstance(v, ast.Constant) and v.value is False:
                    return True
        return False

    def join_call(node):
        return any(op.kind == 'call' and isinstance(
            op.ast.func, ast.Attribute) and op.ast.func.attr == 'join'
            for op in F.ops(node))

    def edge(node, st, lab, tgt):
        if join_call(node):
            seen[0] += 1
            if lab == 'e':
                if st == 'flag-cleared':
                    return Violation(
                        'the connection marks itself as joined before '
                        'joining: if the transaction refuses the join (it '
                        'has already failed, or none was begun) the flag '
                        'stays cleared -- later commits report success but '
                        'store nothing, and close() refuses for ever')
                return st
            return 'joined'
        if lab != 'e' and joined_store(node):
            if st != 'joined':
                return 'flag-cleared'
            return 'done'
        return st

    vs, stats = explore(g, 'start', edge=edge)
    R.count(stats)
    R.require(seen[0] or vs, '_register no longer joins the transaction')
    for v in vs:
        R.violation(v.node, v.message, g, v.path)


# ------------------------------------------------------------------ C11.R8
@rule('C11.R8', 'the record of created objects is forgotten only after they '
      'were dealt with: never on a failing path of a commit-phase method '
      '(tpc_abort still has to disown them)', min_instances=4)
def r8(R):
    conn = R.prog.cls(CONN)
    n = 0
    for meth in ('tpc_begin', 'commit', 'tpc_vote', 'tpc_finish'):
        f = R.method(conn, meth)
        g, b, F = R.cfg(f, conn, max_depth=0)
        n += 1
        R.instance('Connection.%s' % meth)

        def forgets(node, F=F):
            for op in F.ops(node):
                if op.kind == 'call' and (path_is(
                        op.path, ('self', '_tpc_cleanup')) or path_is(
                            op.path, ('self', '_creating', 'clear'))):
                    return True
                if op.kind == 'store' and path_is(
                        op.path, ('self', '_creating')):
                    return True
            return False

        def edge(node, st, lab, tgt, F=F):
            failed, handled, forgot = st
            if lab in ('e', 'eb'):
                failed = True
            if lab not in ('e', 'eb'):
                for op in F.ops(node):
                    if op.kind == 'call' and op.path and op.path[-1] in (
                            '_invalidate_creating',):
                        handled = True
                if failed and not handled and forgets(node) and \
                        forgot is None:
                    forgot = node.id
            return (failed, handled, forgot)

        def at(node, st, meth=meth, g=g):
            failed, handled, forgot = st
            # the method fails (leaves by the exception exit) having
            # forgotten the created objects after the first exception
            if node.id == g.exit_raise and forgot is not None:
                return Violation(
                    'Connection.%s forgets the created objects '
                    '(_tpc_cleanup / _creating cleared) while it is failing: '
                    'the transaction manager calls tpc_abort next, which '
                    'then finds nothing to disown -- objects created by the '
                    'failed commit keep _p_jar/_p_oid and a later reference '
                    'to them is committed dangling' % meth)
            return st

        # only paths that leave by the exception exit count (a handler
        # that recovers and returns normally is not a failing commit)
        vs, stats = explore(g, (False, False, None), at=at, edge=edge)
        R.count(stats)
        for v in vs:
            where = [g.nodes[i] for i in v.path if forgets(g.nodes[i])]
            R.violation(where[-1] if where else v.node, v.message, g, v.path)
    R.require(n >= 4, 'commit-phase methods not found')


# ------------------------------------------------------------------ C11.R9
@rule('C11.R9', 'a record the import writes for a NEW object is written '
      'only after the object was recorded as created by this transaction '
      '(abort disowns what is recorded, nothing else)', props=['C12'],
      min_instances=1)
def r9(R):
    cls = R.prog.cls('ZODB.ExportImport.ExportImport')
    f = R.method(cls, '_importDuringCommit')
    g, b, F = R.cfg(f, cls, max_depth=0)
    seen = [0]

    def edge(node, st, lab, tgt):
        if node.kind == 'loophead':
            return frozenset()
        if lab in ('e', 'eb'):
            return st
        for op in F.ops(node):
            if op.kind == 'setitem' and op.path and op.path[-1] in (
                    '_creating', 'creating', '_added') and isinstance(
                        op.ast, ast.Subscript) and isinstance(
                            op.ast.slice, ast.Name):
                st = st | {op.ast.slice.id}
            # re-binding the name: another oid
            if op.kind == 'store' and op.path and op.path[0] == '%local' \
                    and op.path[1] in st:
                st = st - {op.path[1]}
        return st

    def at(node, st):
        for op in F.ops(node):
            if op.kind == 'call' and op.path and op.path[-1] in (
                    'store', 'storeBlob') and '_storage' in op.path and \
                    op.ast.args and isinstance(op.ast.args[0], ast.Name):
                seen[0] += 1
                if op.ast.args[0].id not in st:
                    return Violation(
                        'the import stores a record under the new id `%s` '
                        'without having recorded that id as created by the '
                        'transaction: after an abort the object importFile() '
                        'returned keeps its id and connection, and linking '
                        'it later commits a dangling reference' %
                        op.ast.args[0].id)
        return st

    vs, stats = explore(g, frozenset(), at=at, edge=edge)
    R.count(stats)
    R.instance('ExportImport._importDuringCommit', stores=seen[0])
    R.require(seen[0] or vs, 'the import no longer stores records')
    for v in vs:
        R.violation(v.node, v.message, g, v.path)


# ----------------------------------------------------------------- C11.R10
@rule('C11.R10', 'every way a transaction ends without commit forgets a '
      'pending import: abort() and tpc_abort() both reset what importFile() '
      'left for the commit (sibling agreement)', props=['C05'],
      min_instances=2)
def r10(R):
    conn = R.prog.cls(CONN)
    # the attributes importFile() leaves for the commit
    ei = R.prog.cls('ZODB.ExportImport.ExportImport')
    imp = R.method(ei, 'importFile')
    pending = set()
    for s in walk_local(imp.node):
        if isinstance(s, ast.Assign):
            for t in s.targets:
                if isinstance(t, ast.Attribute) and isinstance(
                        t.value, ast.Name) and t.value.id == 'self':
                    pending.add(t.attr)
    R.require(pending, 'importFile no longer leaves anything for the commit')
    n = 0
    for meth in ('abort', 'tpc_abort'):
        f = R.method(conn, meth)
        g, b, F = R.cfg(f, conn, max_depth=2)
        n += 1
        R.instance('Connection.%s' % meth, pending=sorted(pending))

        def edge(node, st, lab, tgt, F=F):
            if lab in ('e', 'eb'):
                return st
            if node.kind == 'test' and lab in ('T', 'F'):
                for e, truth in implied_atoms(node.ast, lab):
                    d_ = dotted(e)
                    if d_ and len(d_) == 2 and d_[0] == 'self' and \
                            d_[1] in pending and not truth:
                        st = st | {d_[1]}          # nothing pending
            for op in F.ops(node):
                if op.kind == 'store' and op.path and len(op.path) == 2 and \
                        op.path[0] == 'self' and op.path[1] in pending:
                    st = st | {op.path[1]}
            return st

        def at(node, st, meth=meth):
            if node.id == g.exit_return and pending - st:
                return Violation(
                    'Connection.%s can complete with a pending import '
                    'still set (%s): an import whose savepoint failed (a '
                    'truncated export file) is run again by the commit of '
                    'the NEXT transaction, which fails with the import\'s '
                    'error' % (meth, ', '.join('self.' + a for a in sorted(
                        pending - st))))
            return st

        vs, stats = explore(g, frozenset(), at=at, edge=edge)
        R.count(stats)
        for v in vs[:1]:
            R.violation((f.module.relpath, f.qualname,
                         'pending import not forgotten'), v.message, g,
                        v.path)
    R.require(n >= 2, 'abort methods not found')


# ----------------------------------------------------------------- C11.R11
@rule('C11.R11', 'an object that was new in the transaction is disowned '
      'WITH its state: it is never ghostified first (a ghost without a '
      'database cannot get its state back, and "can be added again later" '
      'needs the state)', props=['C14', 'C12'], min_instances=4)
def r11(R):
    conn = R.prog.cls(CONN)
    # (a) tpc_abort: created objects are disowned before the modified ones
    #     (among them everything savepoints stored) are invalidated
    f = R.method(conn, 'tpc_abort')
    g, b, F = R.cfg(f, conn, max_depth=0)
    R.instance('Connection.tpc_abort order')

    def edge(node, st, lab, tgt):
        if lab == 'e':
            return st
        for op in F.ops(node):
            if op.kind == 'call' and path_is(
                    op.path, ('self', '_invalidate_creating')) and \
                    not op.ast.args:
                st = True
        return st

    def at(node, st):
        for op in F.ops(node):
            if op.kind == 'call' and path_is(
                    op.path, ('self', '_cache', 'invalidate')) and \
                    op.ast.args and ('path', ('self', '_modified')) in \
                    provenance(op.ast.args[0], node.frame, F) and not st:
                return Violation(
                    'tpc_abort invalidates the modified objects -- among '
                    'them every new object a savepoint stored -- before it '
                    'disowns the created ones: a new object is ghostified '
                    'and then loses its database; its state is gone and '
                    'adding it again later commits nothing usable')
        return st

    vs, stats = explore(g, False, at=at, edge=edge)
    R.count(stats)
    for v in vs[:1]:
        R.violation(v.node, v.message, g, v.path,
                    key='modified invalidated before created disowned')
    # (b) _abort: a registered object that is recorded as created is not
    #     invalidated
    f2 = R.method(conn, '_abort')
    g2, b2, F2 = R.cfg(f2, conn, max_depth=0)
    R.instance('Connection._abort registered objects')

    def edge2(node, st, lab, tgt):
        if node.kind == 'for':
            return False
        if node.kind == 'test' and lab in ('T', 'F'):
            for e, truth in implied_atoms(node.ast, lab):
                for x in ast.walk(e):
                    if isinstance(x, ast.Compare) and len(x.ops) == 1 and \
                            isinstance(x.ops[0], (ast.In, ast.NotIn)) and \
                            dotted(x.comparators[0]) == ('self', '_creating'):
                        return True
        return st

    def at2(node, st):
        for op in F2.ops(node):
            if op.kind == 'call' and path_is(
                    op.path, ('self', '_cache', 'invalidate')) and not st:
                return Violation(
                    '_abort invalidates a registered object without having '
                    'looked whether it is recorded as created by this '
                    'transaction: a new object that was stored already '
                    '(explicitly added, or stored by a savepoint and '
                    'modified again) is ghostified before it is disowned '
                    'and loses its state')
        return st

    vs, stats = explore(g2, False, at=at2, edge=edge2)
    R.count(stats)
    for v in vs[:1]:
        R.violation(v.node, v.message, g2, v.path,
                    key='registered created object invalidated')
    # (c) abort(): the created objects are disowned before the savepoint
    #     data is discarded (which invalidates everything it holds -- among
    #     it what a savepoint that then failed had just stored)
    f3 = R.method(conn, 'abort')
    g3, b3, F3 = R.cfg(f3, conn, max_depth=0)
    R.instance('Connection.abort order')

    def edge3(node, st, lab, tgt):
        if lab in ('e', 'eb'):
            return st
        for op in F3.ops(node):
            if op.kind == 'call' and path_is(
                    op.path, ('self', '_invalidate_creating')) and \
                    not op.ast.args:
                st = True
        return st

    def at3(node, st):
        for op in F3.ops(node):
            if op.kind == 'call' and path_is(
                    op.path, ('self', '_abort_savepoint')) and not st:
                return Violation(
                    'abort() discards the savepoint data -- invalidating '
                    'everything the savepoint storage holds -- before it '
                    'disowns the objects recorded as created: a new object '
                    'that a savepoint (or the commit) stored just before '
                    'it failed is ghostified and then loses its database; '
                    'its state is gone, adding it again fails')
        return st

    vs, stats = explore(g3, False, at=at3, edge=edge3)
    R.count(stats)
    for v in vs[:1]:
        R.violation(v.node, v.message, g3, v.path,
                    key='savepoint data discarded before created disowned')
    # (d) _invalidate_creating: a created object that is a ghost when it is
    #     disowned (a savepoint stored it, the cache let go of its state)
    #     gets its state back first -- or is known not to be a ghost
    f4 = R.method(conn, '_invalidate_creating')
    g4, b4, F4 = R.cfg(f4, conn, max_depth=0)
    R.instance('Connection._invalidate_creating ghosts')
    disowns = [0]

    def exempt_if(e, truth):
        """atom `e` having the truth value `truth` says: not a ghost, or a
        blob (whose state is its file)"""
        if isinstance(e, ast.UnaryOp) and isinstance(e.op, ast.Not):
            return exempt_if(e.operand, not truth)
        if isinstance(e, ast.Compare) and len(e.ops) == 1 and \
                isinstance(e.left, ast.Attribute) and \
                e.left.attr == '_p_changed' and isinstance(
                    e.comparators[0], ast.Constant) and \
                e.comparators[0].value is None and \
                isinstance(e.ops[0], (ast.Is, ast.IsNot)):
            return (isinstance(e.ops[0], ast.Is) == truth) is False
        if isinstance(e, ast.Call) and isinstance(e.func, ast.Name) and \
                e.func.id == 'isinstance' and any(
                    isinstance(x, ast.Name) and x.id == 'Blob'
                    for x in ast.walk(e)):
            return truth
        return False

    def edge4(node, st, lab, tgt):
        if node.kind == 'for':
            return False
        if node.kind == 'test' and lab in ('T', 'F'):
            if any(exempt_if(e, truth)
                   for e, truth in implied_atoms(node.ast, lab)):
                return True
            t, lb = node.ast, lab
            while isinstance(t, ast.UnaryOp) and isinstance(t.op, ast.Not):
                t, lb = t.operand, ('F' if lb == 'T' else 'T')
            # a conjunction that fails: some conjunct is false; a
            # disjunction that holds: some disjunct is true
            if lb == 'F' and isinstance(t, ast.BoolOp) and isinstance(
                    t.op, ast.And) and all(exempt_if(c, False)
                                           for c in t.values):
                return True
            if lb == 'T' and isinstance(t, ast.BoolOp) and isinstance(
                    t.op, ast.Or) and all(exempt_if(c, True)
                                          for c in t.values):
                return True
        for op in F4.ops(node):
            if op.kind == 'call' and op.path is not None and \
                    op.path[-1] in ('_p_activate', 'setstate'):
                return True              # also when the load fails
        return st

    def at4(node, st):
        for op in F4.ops(node):
            if op.kind == 'del' and op.path is not None and \
                    op.path[-1] == '_p_jar':
                disowns[0] += 1
                if not st:
                    return Violation(
                        '_invalidate_creating disowns a created object that '
                        'may be a ghost (a savepoint stored it, and '
                        'savepoint()\'s own cacheGC -- or cacheMinimize, '
                        '_p_deactivate -- let go of its state) without '
                        'giving it its state back first: without a '
                        'database the object can never load it; it is '
                        'empty for the application, and adding it again '
                        'fails at commit')
        return st

    vs, stats = explore(g4, False, at=at4, edge=edge4)
    R.count(stats)
    R.require(disowns[0] or vs, '_invalidate_creating no longer disowns '
              'objects')
    for v in vs[:1]:
        R.violation(v.node, v.message, g4, v.path,
                    key='created ghost disowned without its state')


# ------------------------------------------------------------------ C11.R12
@rule('C11.R12', 'the list of objects a commit has stored (what tpc_abort '
      'reverts) survives the abort() that precedes tpc_abort: abort() '
      'forgets it only after it has invalidated those objects itself',
      min_instances=1)
def r12(R):
    """When a commit fails before the vote the transaction calls abort() on
    the connection and then tpc_abort().  tpc_abort() invalidates
    `self._modified` -- among them what savepoints stored.  A reset of that
    list on any path through abort() (with its helpers inlined) that has not
    invalidated the list first leaves those objects with their uncommitted
    state as clean state."""
    cls = R.prog.cls(CONN)
    f = R.method(cls, 'abort')
    g, b, F = R.cfg(f, cls, max_depth=2)
    # the list, by role: what tpc_abort hands to the cache's invalidate
    ta = R.method(cls, 'tpc_abort')
    lists = set()
    ga, ba, Fa = R.cfg(ta, cls, max_depth=0)
    for nid in ga.reachable():
        nd = ga.nodes[nid]
        for op in Fa.ops(nd):
            if op.kind == 'call' and op.path is not None and \
                    op.path[-1] == 'invalidate' and isinstance(
                        op.ast, ast.Call) and op.ast.args:
                for k, v in provenance(op.ast.args[0], nd.frame, Fa):
                    if k == 'path' and len(v) == 2 and v[0] == 'self':
                        lists.add(v[1])
    R.require(lists, 'tpc_abort no longer invalidates a list of stored '
              'objects')
    R.instance('Connection.abort', reverted_by_tpc_abort=sorted(lists))

    def edge(node, st, lab, tgt):
        if lab in ('e', 'eb'):
            return st
        for op in F.ops(node):
            if op.kind == 'call' and op.path is not None and \
                    op.path[-1] == 'invalidate' and isinstance(
                        op.ast, ast.Call) and op.ast.args:
                d_ = dotted(op.ast.args[0])
                if d_ and len(d_) == 2 and d_[0] == 'self' and \
                        d_[1] in lists:
                    st = st | {d_[1]}
        return st

    def at(node, st):
        for op in F.ops(node):
            name = None
            if op.kind in ('store', 'del') and op.path is not None and \
                    len(op.path) == 2 and op.path[0] == 'self' and \
                    op.path[1] in lists:
                name = op.path[1]
            elif op.kind == 'call' and op.path is not None and \
                    len(op.path) == 3 and op.path[0] == 'self' and \
                    op.path[1] in lists and op.path[2] == 'clear':
                name = op.path[1]
            elif op.kind == 'delitem' and op.path is not None and \
                    op.path[:2] == ('self', name or '_modified') and \
                    op.path[1] in lists:
                name = op.path[1]
            if name and name not in st:
                return Violation(
                    'abort() forgets self.%s (`%s`) without having '
                    'invalidated the objects in it: when a commit fails '
                    'before the vote the transaction calls abort() and then '
                    'tpc_abort(), which now finds the list empty -- the '
                    'objects the commit (or its savepoints) had stored keep '
                    'their uncommitted state as if it were committed; a '
                    'retry applies the change a second time' % (
                        name, ' '.join(ast.unparse(op.stmt).split())[:60]))
        return st

    vs, stats = explore(g, frozenset(), at=at, edge=edge)
    R.count(stats)
    for v in vs[:1]:
        R.violation(v.node, v.message, g, v.path,
                    key='stored-object list forgotten by abort() before '
                        'tpc_abort')
