"""CLI:  python -m zverif check C05 [--tier quick|thorough]
         python -m zverif replay /verif/replays/C05/<key>.json
         python -m zverif list
"""
import argparse
import json
import os
import sys


def main(argv=None):
    ap = argparse.ArgumentParser(prog='zverif')
    sub = ap.add_subparsers(dest='cmd', required=True)
    c = sub.add_parser('check')
    c.add_argument('property')
    c.add_argument('--tier', default=os.environ.get('VERIF_TIER', 'quick'))
    c.add_argument('--rule', action='append')
    c.add_argument('--src', default=None)
    c.add_argument('--no-evidence', action='store_true')
    r = sub.add_parser('replay')
    r.add_argument('path')
    sub.add_parser('list')
    s = sub.add_parser('selftest')
    s.add_argument('property', nargs='?')
    s.add_argument('--jobs', type=int, default=16)
    sd = sub.add_parser('seeded')
    sd.add_argument('patch', nargs='?')
    a = ap.parse_args(argv)
    from . import SRC
    from . import engine
    seed = int(os.environ.get('VERIF_SEED', '0') or 0)
    if a.cmd == 'check':
        tier = a.tier if a.tier in ('quick', 'thorough') else 'quick'
        rc = engine.check_property(a.property, tier, seed,
                                   src=a.src or SRC,
                                   write_evidence=not a.no_evidence,
                                   rule_filter=a.rule)
        if rc == 0 and tier == 'thorough' and not a.rule and not a.src:
            # the checker checks itself on scratch copies of the current
            # tree: breaker variants / benign twins, the kept seeded
            # changes of this property, behaviour-preserving rewrites
            from . import equiv, seeded, selftest
            rc = selftest.run(a.property, seed=seed)
            if rc == 0:
                bad, n, sk = seeded.run_for(a.property)
                if bad:
                    print('ANALYSIS-ERROR property=%s a kept seeded change '
                          'is no longer reported' % a.property)
                    rc = 2
            if rc == 0:
                bad, n = equiv.run(props=[a.property],
                                   evidence_for=a.property)
                if bad:
                    print('ANALYSIS-ERROR property=%s the check is not '
                          'stable under behaviour-preserving rewrites' %
                          a.property)
                    rc = 2
        return rc
    if a.cmd == 'replay':
        with open(a.path) as f:
            d = json.load(f)
        return engine.check_property(d['property'], d.get('tier', 'quick'),
                                     seed, write_evidence=False,
                                     rule_filter=[d['rule']])
    if a.cmd == 'list':
        from . import rules  # noqa
        for p in sorted(engine.PROPERTY_RULES):
            print(p, ' '.join(engine.PROPERTY_RULES[p]))
        return 0
    if a.cmd == 'seeded':
        from . import seeded
        return seeded.main([a.patch] if a.patch else [])
    if a.cmd == 'selftest':
        from . import selftest
        return selftest.run(a.property, seed=seed, jobs=a.jobs)


if __name__ == '__main__':
    try:
        sys.exit(main())
    except SystemExit:
        raise
    except BaseException:
        import traceback
        print('ANALYSIS-ERROR internal error:\n' + traceback.format_exc())
        sys.exit(2)
