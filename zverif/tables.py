"""Constant evaluation and struct-format tables (analysis A9)."""

import ast
import re
import struct

from .model import dotted


def struct_fields(fmt):
    """'>8sQcHHH' -> [(code, offset, size), ...] one entry per unpacked
    value."""
    order = fmt[0] if fmt and fmt[0] in '@=<>!' else ''
    body = fmt[len(order):]
    out = []
    prefix = order
    for m in re.finditer(r'(\d*)([a-zA-Z?])', body):
        n, code = m.group(1), m.group(2)
        if code in 'sp':
            off = struct.calcsize(prefix)
            prefix += (n or '1') + code
            out.append((n + code, off, struct.calcsize(prefix) - off))
        elif code == 'x':
            prefix += (n or '1') + code
        else:
            for _ in range(int(n or 1)):
                off = struct.calcsize(prefix + code) - struct.calcsize(
                    order + code)
                prefix += code
                out.append((code, off, struct.calcsize(order + code)))
    return out


def const_value(prog, module, expr, depth=0):
    """Evaluate a module-level constant expression (strings, ints, simple
    arithmetic, names of other constants, struct.calcsize).  Returns the value
    or raises ValueError."""
    if depth > 10:
        raise ValueError('too deep')
    if isinstance(expr, ast.Constant):
        return expr.value
    if isinstance(expr, ast.BinOp):
        a = const_value(prog, module, expr.left, depth + 1)
        b = const_value(prog, module, expr.right, depth + 1)
        ops = {ast.Add: lambda: a + b, ast.Sub: lambda: a - b,
               ast.Mult: lambda: a * b, ast.LShift: lambda: a << b,
               ast.Mod: lambda: a % b}
        for k, f in ops.items():
            if isinstance(expr.op, k):
                return f()
        raise ValueError('unsupported operator')
    if isinstance(expr, ast.Call):
        dn = dotted(expr.func)
        if dn and dn[-1] == 'calcsize' and len(expr.args) == 1:
            return struct.calcsize(const_value(prog, module, expr.args[0],
                                               depth + 1))
        raise ValueError('unsupported call')
    dn = dotted(expr)
    if dn:
        obj = prog.resolve_dotted(module, dn)
        if isinstance(obj, tuple) and obj[0] == 'const':
            return const_value(prog, obj[1], obj[2], depth + 1)
    raise ValueError('not a constant: %s' % ast.dump(expr)[:60])
