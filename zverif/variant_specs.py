"""Declared self-test variants (see variants.py)."""
from .variants import breaker, twin

FSPY = 'ZODB/FileStorage/FileStorage.py'
BSPY = 'ZODB/BaseStorage.py'
MSPY = 'ZODB/MappingStorage.py'
DSPY = 'ZODB/DemoStorage.py'

# ---------------------------------------------------------------- C05
breaker('C05', 'bs-abort-release-out-of-finally', 'C05.R1', BSPY,
        'BaseStorage.tpc_abort',
        '''                self._transaction = None
            finally:
                self._commit_lock_release()''',
        '''                self._transaction = None
                self._commit_lock_release()
            finally:
                pass''')
breaker('C05', 'ds-begin-owner-after-delegate', 'C05.R1', DSPY,
        'DemoStorage.tpc_begin',
        '''            self._transaction = transaction
            self.changes.tpc_begin(transaction, *a, **k)''',
        '''            self.changes.tpc_begin(transaction, *a, **k)
            self._transaction = transaction''')
breaker('C05', 'ms-abort-no-release', 'C05.R1', MSPY,
        'MappingStorage.tpc_abort',
        '''        self._transaction = None
        self._commit_lock.release()''',
        '''        self._transaction = None''')
twin('C05', 'bs-abort-guard-inverted', BSPY, 'BaseStorage.tpc_abort',
     '''            if transaction is not self._transaction:
                return

            try:
                self._abort()
                self._clear_temp()
                self._transaction = None
            finally:
                self._commit_lock_release()''',
     '''            if self._transaction is transaction:
                try:
                    self._abort()
                    self._clear_temp()
                    self._transaction = None
                finally:
                    self._commit_lock.release()''')
