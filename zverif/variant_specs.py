"""Declared self-test variants (see variants.py)."""
from .variants import breaker, twin

FSPY = 'ZODB/FileStorage/FileStorage.py'
BSPY = 'ZODB/BaseStorage.py'
MSPY = 'ZODB/MappingStorage.py'
DSPY = 'ZODB/DemoStorage.py'

# ---------------------------------------------------------------- C05
breaker('C05', 'bs-abort-release-out-of-finally', 'C05.R1', BSPY,
        'BaseStorage.tpc_abort',
        '''                self._transaction = None
            finally:
                self._commit_lock_release()''',
        '''                self._transaction = None
                self._commit_lock_release()
            finally:
                pass''')
breaker('C05', 'ds-begin-owner-after-delegate', 'C05.R1', DSPY,
        'DemoStorage.tpc_begin',
        '''            self._transaction = transaction
            if (a[0] if a else k.get('tid')) is None:''',
        '''            self.changes.lastTransaction()
            self._transaction = transaction
            if (a[0] if a else k.get('tid')) is None:''')
breaker('C05', 'ms-abort-no-release', 'C05.R1', MSPY,
        'MappingStorage.tpc_abort',
        '''        self._transaction = None
        self._commit_lock.release()''',
        '''        self._transaction = None''')
twin('C05', 'bs-abort-guard-inverted', BSPY, 'BaseStorage.tpc_abort',
     '''            if transaction is not self._transaction:
                return

            try:
                self._abort()
                self._clear_temp()
                self._transaction = None
            finally:
                self._commit_lock_release()''',
     '''            if self._transaction is transaction:
                try:
                    self._abort()
                    self._clear_temp()
                    self._transaction = None
                finally:
                    self._commit_lock.release()''')

# ---------------------------------------------------------------- C01
breaker('C01', 'finish-no-fsync', 'C01.R1', FSPY, 'FileStorage._finish_finish',
        '''        if fsync is not None:
            fsync(self._file.fileno())
''', '')
breaker('C01', 'finish-no-flush', 'C01.R1', FSPY, 'FileStorage._finish_finish',
        '''        self._file.flush()
''', '')
breaker('C01', 'finish-publish-before-fsync', 'C01.R1', FSPY,
        'FileStorage._finish_finish',
        '''        self._file.flush()
        if fsync is not None:
            fsync(self._file.fileno())

        self._pos = self._nextpos
''', '''        self._pos = self._nextpos
        self._file.flush()
        if fsync is not None:
            fsync(self._file.fileno())

''')
breaker('C01', 'finish-fsync-tfile', 'C01.R1', FSPY,
        'FileStorage._finish_finish',
        'fsync(self._file.fileno())', 'fsync(self._tfile.fileno())')
breaker('C01', 'finish-fsync-conditional', 'C01.R1', FSPY,
        'FileStorage._finish_finish',
        'if fsync is not None:', 'if fsync is not None and self._quota:')
breaker('C01', 'vote-status-blank', 'C01.R2', FSPY, 'FileStorage.tpc_vote',
        'h = TxnHeader(self._tid, tl, "c", len(user),',
        'h = TxnHeader(self._tid, tl, " ", len(user),')
breaker('C01', 'finish-status-offset', 'C01.R2', FSPY, 'FileStorage._finish',
        'self._file.seek(self._pos + 16)', 'self._file.seek(self._pos + 8)')
breaker('C01', 'vote-length-before-records', 'C01.R3', FSPY,
        'FileStorage.tpc_vote',
        '''                cp(self._tfile, self._file, dlen)
                self._file.write(p64(tl))''',
        '''                self._file.write(p64(tl))
                cp(self._tfile, self._file, dlen)''')
breaker('C01', 'vote-no-flush', 'C01.R3', FSPY, 'FileStorage.tpc_vote',
        '''                self._file.flush()
''', '')
breaker('C01', 'vote-trailing-length-differs', 'C01.R3', FSPY,
        'FileStorage.tpc_vote',
        'self._file.write(p64(tl))', 'self._file.write(p64(dlen))')
breaker('C01', 'vote-no-truncate-on-error', 'C01.R4', FSPY,
        'FileStorage.tpc_vote',
        '''                self._file.truncate(self._pos)
                self._files.flush()
                raise''', '''                self._files.flush()
                raise''')
breaker('C01', 'vote-swallow-error', 'C01.R4', FSPY, 'FileStorage.tpc_vote',
        '''                self._files.flush()
                raise
''', '''                self._files.flush()
''')
breaker('C01', 'store-appends-to-datafile', 'C01.R5', FSPY,
        'FileStorage.store',
        '''            self._tfile.write(data)

            # Check quota''',
        '''            self._tfile.write(data)
            if self._quota is None and not self._tindex:
                self._file.seek(0, 2)
                self._file.write(data)

            # Check quota''')
breaker('C01', 'scan-accepts-checkpoint', 'C01.R6', FSPY, 'read_index',
        "if pos + (tl + 8) > file_size or status == 'c':",
        "if pos + (tl + 8) > file_size:")
breaker('C01', 'scan-no-truncate-short-header', 'C01.R6', FSPY, 'read_index',
        '''                logger.warning('%s truncated at %s', name, pos)
                seek(pos)
                file.truncate()''',
        '''                logger.warning('%s truncated at %s', name, pos)
                seek(pos)''')
breaker('C01', 'scan-no-redundant-length-check', 'C01.R6', FSPY, 'read_index',
        '''        if h != tl:
            if recover:
                return tpos, None, None
            panic("%s redundant transaction length check failed at %s",
                  name, pos)
        pos += 8''', '''        pos += 8''')
twin('C01', 'finish-rename-local', FSPY, 'FileStorage.tpc_finish',
     '''                    tid = self._tid
                    if f is not None:
                        f(tid)
                    self._finish(tid, *self._ude)''',
     '''                    the_tid = tid = self._tid
                    if f is not None:
                        f(the_tid)
                    self._finish(the_tid, *self._ude)''')
twin('C01', 'finish-sync-helper', FSPY, 'FileStorage',
     '''        self._file.flush()
        if fsync is not None:
            fsync(self._file.fileno())

        self._pos = self._nextpos''', '''        self._sync_data_file()
        self._pos = self._nextpos''' + """
        self._index.update(self._tindex)
        self._ltid = tid
        self._blob_tpc_finish()

    def _sync_data_file(self):
        handle = self._file
        handle.flush()
        if fsync is not None:
            fsync(handle.fileno())

    def _finish_finish_old(self, tid):
        self._pos = self._nextpos""")
twin('C01', 'vote-handler-order', FSPY, 'FileStorage.tpc_vote',
     '''                self._file.truncate(self._pos)
                self._files.flush()
                raise''', '''                try:
                    self._file.truncate(self._pos)
                finally:
                    self._files.flush()
                raise''')
twin('C01', 'scan-status-test-split', FSPY, 'read_index',
     "if pos + (tl + 8) > file_size or status == 'c':",
     "if status == 'c' or pos + (tl + 8) > file_size:")

# ---------------------------------------------------------------- C03
CONNPY = 'ZODB/Connection.py'
breaker('C03', 'fs-store-no-compare', 'C03.R1', FSPY, 'FileStorage.store',
        '''                if oldserial != committed_tid:
                    data = self.tryToResolveConflict(oid, committed_tid,
                                                     oldserial, data)
                    self._resolved.append(oid)
''', '')
breaker('C03', 'fs-store-less-than', 'C03.R1', FSPY, 'FileStorage.store',
        'if oldserial != committed_tid:', 'if oldserial < committed_tid:')
breaker('C03', 'fs-store-resolve-discarded', 'C03.R1', FSPY,
        'FileStorage.store',
        '''                    data = self.tryToResolveConflict(oid, committed_tid,
                                                     oldserial, data)''',
        '''                    self.tryToResolveConflict(oid, committed_tid,
                                              oldserial, data)''')
breaker('C03', 'fs-delete-no-raise', 'C03.R1', FSPY, 'FileStorage.deleteObject',
        '''                raise ConflictError(
                    oid=oid, serials=(committed_tid, oldserial))''',
        '''                logger.warning("conflict on delete")''')
breaker('C03', 'ms-store-conflict-only-newer', 'C03.R1', MSPY,
        'MappingStorage.store',
        'if serial != old_tid:', 'if serial > old_tid:')
breaker('C03', 'ds-store-stage-original', 'C03.R1', DSPY, 'DemoStorage.store',
        "self.changes.store(oid, old, rdata, '', transaction)",
        "self.changes.store(oid, old, data, '', transaction)")
breaker('C03', 'fs-store-existence-weakened', 'C03.R1', FSPY,
        'FileStorage.store',
        '''            committed_tid = None
            if old:''', '''            committed_tid = None
            if old and self._quota is None:''')
breaker('C03', 'bs-begin-commit-lock-under-storage-lock', 'C03.R2', BSPY,
        'BaseStorage.tpc_begin',
        '''        self._commit_lock.acquire()

        with self._lock:
            self._transaction = transaction''',
        '''        with self._lock:
            self._commit_lock.acquire()
            self._transaction = transaction''')
breaker('C03', 'fs-store-releases-commit-lock', 'C03.R2', FSPY,
        'FileStorage.store',
        '''                raise FileStorageQuotaError(
                    "The storage quota has been exceeded.")''',
        '''                self._commit_lock.release()
                raise FileStorageQuotaError(
                    "The storage quota has been exceeded.")''')
breaker('C03', 'commit-swallow-read-conflict', 'C03.R4', CONNPY,
        'Connection.commit',
        '''                self._cache.invalidate(oid)
                raise''', '''                self._cache.invalidate(oid)''')
breaker('C03', 'commit-no-readcurrent-loop', 'C03.R4', CONNPY,
        'Connection.commit',
        'for oid, serial in self._readCurrent.items():',
        'for oid, serial in ():')
breaker('C03', 'check-current-only-older', 'C03.R4', BSPY,
        'checkCurrentSerialInTransaction',
        'if committed_tid != serial:', 'if committed_tid < serial:')
breaker('C03', 'store-objects-fresh-serial', 'C03.R5', CONNPY,
        'Connection._store_objects_of',
        's = self._storage.store(oid, serial, p, \'\', transaction)',
        's = self._storage.store(oid, self._storage.getTid(oid) if serial != z64 else serial, p, \'\', transaction)')
breaker('C03', 'store-objects-modified-after-store', 'C03.R6', CONNPY,
        'Connection._store_objects_of',
        '''            else:
                new = False
                self._modified.append(oid)

            p = writer.serialize(obj)''',
        '''            else:
                new = False

            p = writer.serialize(obj)''')
breaker('C03', 'store-objects-drop-dependency-in-savepoint', 'C03.R7', CONNPY,
        'Connection._store_objects_of',
        '''            if self._savepoint_storage is None:
                self._readCurrent.pop(oid, None)''',
        '''            self._readCurrent.pop(oid, None)''')
twin('C03', 'fs-store-eq-inverted', FSPY, 'FileStorage.store',
     '''                if oldserial != committed_tid:
                    data = self.tryToResolveConflict(oid, committed_tid,
                                                     oldserial, data)
                    self._resolved.append(oid)''',
     '''                if committed_tid == oldserial:
                    pass
                else:
                    data = self.tryToResolveConflict(oid, committed_tid,
                                                     oldserial, data)
                    self._resolved.append(oid)''')
twin('C03', 'ms-store-rename-local', MSPY, 'MappingStorage.store',
     '''            old_tid = tid_data.maxKey()
            if serial != old_tid:
                raise ZODB.POSException.ConflictError(
                    oid=oid, serials=(old_tid, serial), data=data)''',
     '''            newest = tid_data.maxKey()
            if newest != serial:
                raise ZODB.POSException.ConflictError(
                    oid=oid, serials=(newest, serial), data=data)''')
twin('C03', 'store-objects-savepoint-test-inverted', CONNPY,
     'Connection._store_objects_of',
     '''            if self._savepoint_storage is None:
                self._readCurrent.pop(oid, None)''',
     '''            if self._savepoint_storage is not None:
                pass
            else:
                self._readCurrent.pop(oid, None)''')

# ---------------------------------------------------------------- C12
breaker('C12', 'reset-index-alias', 'C12.R1', CONNPY, 'TmpStore.reset',
        'self.index = index.copy()', 'self.index = index')
breaker('C12', 'reset-creating-alias', 'C12.R1', CONNPY, 'TmpStore.reset',
        'self.creating = creating.copy()', 'self.creating = creating')
breaker('C12', 'savepoint-state-index-alias', 'C12.R1', CONNPY,
        'Connection.savepoint',
        '''                 self._storage.index.copy(),''',
        '''                 self._storage.index,''')
breaker('C12', 'rollback-capture-after-reset', 'C12.R2', CONNPY,
        'Connection._rollback_savepoint',
        '''        index = src.index
        src.reset(*state)''', '''        src.reset(*state)
        index = src.index''')
breaker('C12', 'rollback-no-abort', 'C12.R2', CONNPY,
        'Connection._rollback_savepoint',
        '''        self._abort()
''', '')
breaker('C12', 'rollback-no-invalidate', 'C12.R2', CONNPY,
        'Connection._rollback_savepoint',
        '''        self._cache.invalidate(index)
''', '')
breaker('C12', 'tmpstore-writes-through', 'C12.R3', CONNPY, 'TmpStore.store',
        '''        self.position += lenght + len(header)
        return serial''', '''        self.position += lenght + len(header)
        if lenght > (1 << 30):
            self._storage.store(oid, serial, data, version, transaction)
        return serial''')
breaker('C12', 'tmpstore-alias-tpc', 'C12.R3', CONNPY, 'TmpStore.__init__',
        "'getName', 'new_oid', 'sortKey',", "'getName', 'new_oid', 'sortKey', 'tpc_vote',")
breaker('C12', 'commit-savepoint-no-close-on-error', 'C12.R4', CONNPY,
        'Connection._commit_savepoint',
        '''        finally:
            src.close()''', '''        except BaseException:
            raise
        src.close()''')
breaker('C12', 'savepoint-switch-after-commit', 'C12.R5', CONNPY,
        'Connection.savepoint',
        '''            self._storage = self._savepoint_storage

        self._creating.clear()
        self._commit(None)''', '''
        self._creating.clear()
        self._commit(None)
        self._storage = self._savepoint_storage''')
breaker('C12', 'savepoint-blob-name-oid-serial-only', 'C12.R6', CONNPY,
        'TmpStore._getCleanFilename',
        '''            "{}-{}-{}{}".format(utils.oid_repr(oid), utils.tid_repr(tid),
                                self.index.get(oid, 0), SAVEPOINT_SUFFIX)''',
        '''            "{}-{}{}".format(utils.oid_repr(oid), utils.tid_repr(tid),
                             SAVEPOINT_SUFFIX)''')
twin('C12', 'reset-dict-copy', CONNPY, 'TmpStore.reset',
     'self.creating = creating.copy()', 'self.creating = dict(creating)')
twin('C12', 'rollback-rename-src', CONNPY, 'Connection._rollback_savepoint',
     '''        src = self._storage

        # Invalidate objects created *after* the savepoint.
        self._invalidate_creating(oid for oid in src.creating
                                  if oid not in state[2])
        index = src.index
        src.reset(*state)
        self._cache.invalidate(index)''',
     '''        store = self._storage

        # Invalidate objects created *after* the savepoint.
        self._invalidate_creating(oid for oid in store.creating
                                  if oid not in state[2])
        written = store.index
        store.reset(*state)
        self._cache.invalidate(written)''')

# ---------------------------------------------------------------- C13
BLOBPY = 'ZODB/blob.py'
PACKPY = 'ZODB/FileStorage/fspack.py'
breaker('C13', 'fs-abort-blob-cleanup-only-after-vote', 'C13.R1', FSPY,
        'FileStorage._abort',
        '''            self._nextpos = 0
        self._blob_tpc_abort()''', '''            self._nextpos = 0
            self._blob_tpc_abort()''')
breaker('C13', 'fs-finish-keeps-dirty-list', 'C13.R1', FSPY,
        'FileStorage._finish_finish',
        '''        self._blob_tpc_finish()
''', '')
breaker('C13', 'blobstorage-abort-no-cleanup', 'C13.R1', BLOBPY,
        'BlobStorage.tpc_abort',
        '''            self._blob_remove_files(dirty_oids)''', '''            pass''')
breaker('C13', 'storeblob-file-before-record', 'C13.R2', BLOBPY,
        'BlobStorageMixin.storeBlob',
        '''        self.store(oid, oldserial, data, '', transaction)
        self._blob_storeblob(oid, self._tid, blobfilename)''',
        '''        self._blob_storeblob(oid, self._tid, blobfilename)
        self.store(oid, oldserial, data, '', transaction)''')
breaker('C13', 'storeblob-dirty-after-rename', 'C13.R3', BLOBPY,
        'BlobStorageMixin._blob_storeblob',
        '''            self.dirty_oids.append((oid, serial))
            rename_or_copy_blob(blobfilename, targetname)''',
        '''            rename_or_copy_blob(blobfilename, targetname)
            self.dirty_oids.append((oid, serial))''')
breaker('C13', 'undo-dirty-wrong-serial', 'C13.R3', BLOBPY, 'BlobStorage.undo',
        'self.dirty_oids.append((oid, undo_serial))',
        'self.dirty_oids.append((oid, serial_id))')
breaker('C13', 'blob-open-committed-for-update', 'C13.R4', BLOBPY, 'Blob.open',
        '''                if self._p_blob_uncommitted is None:
                    # Create a new working copy
                    self._create_uncommitted_file()
                    result = BlobFile(self._p_blob_uncommitted, mode, self)
                    if self._p_blob_committed:
                        with open(self._p_blob_committed, 'rb') as fp:
                            utils.cp(fp, result)
                        if mode == 'r+':
                            result.seek(0)''',
        '''                if self._p_blob_uncommitted is None:
                    result = BlobFile(self._p_blob_committed, mode, self)''')
breaker('C13', 'pack-removes-unlisted', 'C13.R5', FSPY,
        'FileStorage._remove_blob_files_tagged_for_removal_during_pack',
        '''                handle_file(path)
                assert not os.path.exists(path)''',
        '''                handle_file(path)
                handle_dir(os.path.dirname(os.path.dirname(fshelper.temp_dir)))
                assert not os.path.exists(path)''')
breaker('C13', 'store-objects-leak-working-file', 'C13.R6', CONNPY,
        'Connection._store_objects_of',
        '''                    if os.path.exists(blobfilename):
                        os.remove(blobfilename)
                    raise''', '''                    raise''')
breaker('C13', 'packer-bare-oid-entry', 'C13.R7', PACKPY,
        'FileStoragePacker.copyDataRecords',
        'binascii.hexlify(h.oid + h.tid) + b\'\\n\')',
        'binascii.hexlify(h.oid) + b\'\\n\')')
twin('C13', 'storeblob-helper-name', BLOBPY, 'BlobStorageMixin._blob_storeblob',
     '''            targetname = self.fshelper.getBlobFilename(oid, serial)''',
     '''            helper = self.fshelper
            targetname = helper.getBlobFilename(oid, serial)''')
twin('C13', 'store-objects-unlink', CONNPY, 'Connection._store_objects_of',
     '''                    if os.path.exists(blobfilename):
                        os.remove(blobfilename)
                    raise''', '''                    try:
                        os.unlink(blobfilename)
                    except OSError:
                        pass
                    raise''')

# ---------------------------------------------------------------- C19
FSIPY = 'ZODB/fsIndex.py'
breaker('C19', 'minkey-suffix-on-foreign-bucket', 'C19.R1', FSIPY,
        'fsIndex.minKey',
        'if key is None or smallest_prefix != key[:6]:', 'if key is None:')
breaker('C19', 'maxkey-suffix-on-foreign-bucket', 'C19.R1', FSIPY,
        'fsIndex.maxKey',
        'if key is None or biggest_prefix != key[:6]:', 'if key is None:')
breaker('C19', 'delitem-leaves-empty-bucket', 'C19.R2', FSIPY,
        'fsIndex.__delitem__',
        '''        if not tree:
            del self._data[treekey]
''', '')
breaker('C19', 'save-position-last', 'C19.R3', FSIPY, 'fsIndex.save',
        '''            pickler.dump(pos)
            for k, v in self._data.items():
                pickler.dump((k, v.toString()))
            pickler.dump(None)''',
        '''            for k, v in self._data.items():
                pickler.dump((k, v.toString()))
            pickler.dump(None)
            pickler.dump(pos)''')
breaker('C19', 'save-no-terminator', 'C19.R3', FSIPY, 'fsIndex.save',
        '''            pickler.dump(None)
''', '')
breaker('C19', 'get-split-5', 'C19.R4', FSIPY, 'fsIndex.get',
        'tree = self._data.get(key[:6], default)',
        'tree = self._data.get(key[:5], default)')
breaker('C19', 'num2str-7-bytes', 'C19.R4', FSIPY, 'num2str',
        'return struct.pack(">Q", n)[2:]', 'return struct.pack(">Q", n)[1:]')
twin('C19', 'minkey-operands-swapped', FSIPY, 'fsIndex.minKey',
     'if key is None or smallest_prefix != key[:6]:',
     'if key is None or not (key[:6] == smallest_prefix):')

# ---------------------------------------------------------------- C20
breaker('C20', 'new-oid-without-lock', 'C20.R1', BSPY, 'BaseStorage.new_oid',
        '''        with self._lock:
            last = self._oid''', '''        if True:
            last = self._oid''')
breaker('C20', 'fs-close-resets-counter', 'C20.R1', FSPY, 'FileStorage._clear_temp',
        '''        self._tindex.clear()''', '''        self._tindex.clear()
        with self._lock:
            self._oid = self._index.maxKey() if self._index else z64''')
breaker('C20', 'fs-restore-no-raise', 'C20.R2', FSPY, 'FileStorage.restore',
        '''            if oid > self._oid:
                self.set_max_oid(oid)
            prev_pos = 0''', '''            prev_pos = 0''')
breaker('C20', 'fs-store-counter-test-inverted', 'C20.R2', FSPY,
        'FileStorage.store',
        '''            if oid > self._oid:
                self.set_max_oid(oid)''', '''            if oid < self._oid:
                self.set_max_oid(oid)''')
breaker('C20', 'set-max-oid-inverted', 'C20.R2', BSPY,
        'BaseStorage.set_max_oid',
        'if possible_new_max_oid > self._oid:',
        'if possible_new_max_oid < self._oid:')
breaker('C20', 'ms-store-no-raise', 'C20.R2', MSPY, 'MappingStorage.store',
        '''        self._oid = max(self._oid, ZODB.utils.u64(oid))
''', '')
breaker('C20', 'reopen-counter-zero', 'C20.R3', FSPY, 'FileStorage.__init__',
        '''            self._pos, self._oid, tid = read_index(
                self._file, file_name, index, tindex, stop,
                read_only=read_only,
            )''', '''            self._pos, _maxoid, tid = read_index(
                self._file, file_name, index, tindex, stop,
                read_only=read_only,
            )''')
breaker('C20', 'ds-new-oid-skip-base-probe', 'C20.R4', DSPY,
        'DemoStorage.new_oid',
        '''                        try:
                            load_current(self.base, oid)
                        except ZODB.POSException.POSKeyError:
                            self._next_oid += 1
                            self._issued_oids.add(oid)
                            return oid''',
        '''                        self._next_oid += 1
                        self._issued_oids.add(oid)
                        return oid''')
breaker('C20', 'ds-new-oid-forget-issued', 'C20.R4', DSPY,
        'DemoStorage.new_oid',
        '''                            self._issued_oids.add(oid)
''', '')
breaker('C20', 'persistent-id-local-counter', 'C20.R5', 'ZODB/serialize.py',
        'ObjectWriter.persistent_id',
        'oid = obj._p_oid = self._jar.new_oid()',
        'oid = obj._p_oid = p64(len(self._stack) + 1)')
twin('C20', 'fs-store-max-idiom', FSPY, 'FileStorage.store',
     '''            if oid > self._oid:
                self.set_max_oid(oid)''', '''            if self._oid < oid:
                self.set_max_oid(oid)''')

# ---------------------------------------------------------------- C04
UTILPY = 'ZODB/utils.py'
FMTPY = 'ZODB/FileStorage/format.py'
breaker('C04', 'bs-begin-no-laterthan', 'C04.R1', BSPY, 'BaseStorage.tpc_begin',
        'self._ts = t = t.laterThan(self._ts)', 'self._ts = t')
breaker('C04', 'bs-begin-basis-not-updated', 'C04.R1', BSPY,
        'BaseStorage.tpc_begin',
        'self._ts = t = t.laterThan(self._ts)', 't = t.laterThan(self._ts)')
breaker('C04', 'newtid-no-laterthan', 'C04.R1', UTILPY, 'newTid',
        '''    if old is not None:
        ts = ts.laterThan(TimeStamp(old))
''', '')
breaker('C04', 'ms-begin-basis-ltid-missing', 'C04.R1', MSPY,
        'MappingStorage.tpc_begin',
        'tid = ZODB.utils.newTid(old_tid)', 'tid = ZODB.utils.newTid(None)')
breaker('C04', 'trans-hdr-len-wrong', 'C04.R2', FMTPY, None,
        'TRANS_HDR_LEN = 23\n', 'TRANS_HDR_LEN = 24\n')
breaker('C04', 'data-find-unpack-arity', 'C04.R2', FSPY, 'FileStorage._data_find',
        'tid, tl, status, ul, dl, el = unpack(TRANS_HDR, h)',
        'tid, tl, status, ul, dl = unpack(TRANS_HDR, h)')
breaker('C04', 'fsrecover-format-drift', 'C04.R2', 'ZODB/fsrecover.py',
        'read_txn_header',
        'unpack(">8s8scHHH", h)', 'unpack(">8s8scHH", h)')
breaker('C04', 'undosearch-u64-on-int', 'C04.R2', FSPY, 'UndoSearch._readnext',
        "'size': tl,", "'size': u64(tl),")
breaker('C04', 'loadbefore-inclusive', 'C04.R3', FSPY, 'FileStorage.loadBefore',
        'if h.tid < tid:', 'if h.tid <= tid:')
breaker('C04', 'ms-loadbefore-inclusive', 'C04.R3', MSPY,
        'MappingStorage.loadBefore',
        'before = ZODB.utils.p64(before - 1)', 'before = ZODB.utils.p64(before)')
breaker('C04', 'loadserial-not-exact', 'C04.R3', FSPY, 'FileStorage.loadSerial',
        'if h.tid == serial:', 'if h.tid <= serial:')
breaker('C04', 'pack-index-swap-outside-lock', 'C04.R4', FSPY, 'FileStorage.pack',
        '''                    self._initIndex(index, self._tindex)
                    self._pos = opos
''', '''                    pass
            self._initIndex(index, self._tindex)
            self._pos = opos
''')
breaker('C04', 'finish-outside-write-lock', 'C04.R4', FSPY,
        'FileStorage.tpc_finish',
        'with self._files.write_lock():', 'if True:')
breaker('C04', 'reopen-ltid-constant', 'C04.R5', FSPY, 'FileStorage.__init__',
        '''        self._ltid = tid

        # self._pos should always''', '''        self._ltid = z64

        # self._pos should always''')
breaker('C04', 'iterator-misspelt-helper', 'C04.R6', FSPY,
        'FileIterator._skip_to_start',
        'return self._scan_backward(pos2, start)',
        'return self._scan_backwards(pos2, start)')
twin('C04', 'bs-begin-two-steps', BSPY, 'BaseStorage.tpc_begin',
     '''                self._ts = t = t.laterThan(self._ts)
                self._tid = t.raw()''',
     '''                t = t.laterThan(self._ts)
                self._ts = t
                self._tid = t.raw()''')
twin('C04', 'loadbefore-swapped-operands', FSPY, 'FileStorage.loadBefore',
     'if h.tid < tid:', 'if tid > h.tid:')

# ---------------------------------------------------------------- C17
RECPY = 'ZODB/fsrecover.py'
breaker('C17', 'copy-restore-txn-tid', 'C17.R1', BSPY, 'copy',
        '''dest.restore(oid, r.tid, r.data, r.version,
                                 r.data_txn, transaction)''',
        '''dest.restore(oid, transaction.tid, r.data, r.version,
                                 r.data_txn, transaction)''')
breaker('C17', 'blobcopy-restore-no-hint', 'C17.R1', BLOBPY,
        'copyTransactionsFromTo',
        '''                    destination.restore(record.oid, record.tid, record.data,
                                        '', record.data_txn, trans)''',
        '''                    destination.restore(record.oid, record.tid, record.data,
                                        '', None, trans)''')
breaker('C17', 'copy-begin-no-status', 'C17.R2', BSPY, 'copy',
        'dest.tpc_begin(transaction, tid, transaction.status)',
        'dest.tpc_begin(transaction, tid)')
breaker('C17', 'recover-begin-new-tid', 'C17.R2', RECPY, 'recover',
        'ofs.tpc_begin(txn, tid, txn.status)',
        'ofs.tpc_begin(txn, None, txn.status)')
breaker('C17', 'scan-zero-progress', 'C17.R3', RECPY, 'scan',
        '''                if l_ == 0:
                    # Fewer than 8 bytes follow a period at the very
                    # start of the buffer: we are at the end of the file.
                    return 0
''', '')
breaker('C17', 'scan-no-progress-on-no-period', 'C17.R3', RECPY, 'scan',
        '''            if l_ < 0:
                pos += len(data)
                break''', '''            if l_ < 0:
                break''')
breaker('C17', 'copy-no-eof-exit', 'C17.R3', RECPY, 'copy',
        '''        if not buf:
            break
''', '')
breaker('C17', 'restore-hint-mandatory', 'C17.R4', FSPY, 'FileStorage.restore',
        '''                try:
                    prev_txn_pos = self._txn_find(prev_txn, 0)
                except UndoError:
                    # prev_txn is only a hint: it need not exist here.
                    prev_txn_pos = 0''',
        '''                prev_txn_pos = self._txn_find(prev_txn, 0)''')
breaker('C17', 'recover-abort-skipped', 'C17.R5', RECPY, 'recover',
        '''            else:
                ofs.tpc_abort(txn)
            print("error copying transaction:", err)''',
        '''            print("error copying transaction:", err)''')
twin('C17', 'copy-restore-inline-oid', BSPY, 'copy',
     '''dest.restore(oid, r.tid, r.data, r.version,
                                 r.data_txn, transaction)''',
     '''dest.restore(r.oid, r.tid, r.data, r.version,
                                 r.data_txn, transaction)''')
twin('C17', 'scan-guard-spelling', RECPY, 'scan',
     '''                if l_ == 0:''', '''                if not l_ > 0:''')

# ---------------------------------------------------------------- C09
breaker('C09', 'init-read-index-forgets-read-only', 'C09.R1', FSPY,
        'FileStorage.__init__',
        '''                self._file, file_name, index, tindex, stop,
                read_only=read_only,
            )
            self._ltid = tid
            self._save_index()''',
        '''                self._file, file_name, index, tindex, stop,
            )
            self._ltid = tid
            self._save_index()''')
breaker('C09', 'save-index-unguarded', 'C09.R1', FSPY,
        'FileStorage._save_index',
        '''        if self._is_read_only:
            return

''', '')
breaker('C09', 'tmp-file-opened-read-only-too', 'C09.R1', FSPY,
        'FileStorage.__init__',
        '''        if not read_only:
            # Create the lock file
            self._lock_file = LockFile(file_name + '.lock')
            self._tfile = open(file_name + '.tmp', 'w+b')
            self._tfmt = TempFormatter(self._tfile)
        else:
            self._tfile = None''',
        '''        if not read_only:
            # Create the lock file
            self._lock_file = LockFile(file_name + '.lock')
        self._tfile = open(file_name + '.tmp', 'w+b')
        self._tfmt = TempFormatter(self._tfile)''')
breaker('C09', 'scan-truncates-read-only', 'C09.R1', FSPY, 'read_index',
        '''            if not read_only:
                logger.warning("%s truncated, possibly due to damaged"
                               " records at %s", name, pos)
                _truncate(file, name, pos)
            break''', '''            logger.warning("%s truncated, possibly due to damaged"
                           " records at %s", name, pos)
            _truncate(file, name, pos)
            break''')
breaker('C09', 'pack-no-read-only-check', 'C09.R2', FSPY, 'FileStorage.pack',
        '''        if self._is_read_only:
            raise ReadOnlyError()

        stop = TimeStamp''', '''        stop = TimeStamp''')
breaker('C09', 'delete-read-only-check-late', 'C09.R2', FSPY,
        'FileStorage.deleteObject',
        '''        if self._is_read_only:
            raise ReadOnlyError()
        if transaction is not self._transaction:
            raise StorageTransactionError(self, transaction)

        with self._lock:
            old = self._index_get(oid, 0)''',
        '''        if transaction is not self._transaction:
            raise StorageTransactionError(self, transaction)

        with self._lock:
            old = self._index_get(oid, 0)
            if self._is_read_only:
                raise ReadOnlyError()''')
breaker('C09', 'index-load-unprotected', 'C09.R3', FSPY,
        'FileStorage._restore_index',
        '''            try:
                info = fsIndex.load(index_name)
            except:  # noqa: E722 do not use bare 'except'
                logger.exception('loading index')
                return None''', '''            info = fsIndex.load(index_name)''')
breaker('C09', 'sanity-check-unprotected', 'C09.R3', FSPY, 'FileStorage._sane',
        '''        try:
            r = self._check_sanity(index, pos)
        except Exception:
            # The saved index does not match the file; it is only a cache.
            logger.exception("Error checking index for %s", self._file_name)
            r = 0''', '''        r = self._check_sanity(index, pos)''')
breaker('C09', 'index-used-unchecked', 'C09.R4', FSPY,
        'FileStorage._restore_index',
        '''        tid = self._sane(index, pos)
        if not tid:
            return None
''', '''        tid = self._sane(index, pos)
''')
breaker('C09', 'scan-from-start-ignores-saved-pos', 'C09.R4', FSPY,
        'FileStorage.__init__',
        'ltid=ltid, start=start, read_only=read_only,',
        'ltid=ltid, read_only=read_only,')
breaker('C09', 'index-saved-in-place', 'C09.R5', FSPY,
        'FileStorage._save_index',
        'self._index.save(self._pos, tmp_name, self._ltid)',
        'self._index.save(self._pos, index_name, self._ltid)')
twin('C09', 'save-index-guard-inverted', FSPY, 'FileStorage._save_index',
     '''        if self._is_read_only:
            return

        index_name = self.__name__ + '.index'
        tmp_name = index_name + '.index_tmp'

        self._index.save(self._pos, tmp_name, self._ltid)

        try:
            try:
                os.remove(index_name)
            except OSError:
                pass
            os.rename(tmp_name, index_name)
        except:  # noqa: E722 do not use bare 'except'
            pass

        self._saved += 1''',
     '''        if not self._is_read_only:
            index_name = self.__name__ + '.index'
            tmp_name = index_name + '.index_tmp'

            self._index.save(self._pos, tmp_name, self._ltid)

            try:
                try:
                    os.remove(index_name)
                except OSError:
                    pass
                os.rename(tmp_name, index_name)
            except:  # noqa: E722 do not use bare 'except'
                pass

            self._saved += 1''')
twin('C09', 'scan-guard-ifelse', FSPY, 'read_index',
     '''            if not read_only:
                logger.warning('%s truncated at %s', name, pos)
                seek(pos)
                file.truncate()
            break''', '''            if read_only:
                pass
            else:
                logger.warning('%s truncated at %s', name, pos)
                seek(pos)
                file.truncate()
            break''')

# ---------------------------------------------------------------- C08
breaker('C08', 'copyone-flag-not-cleared', 'C08.R1', PACKPY,
        'FileStoragePacker.copyOne',
        '''        self._commit_lock.release()
        self.locked = False''', '''        self._commit_lock.release()''')
breaker('C08', 'copyone-flag-set-late', 'C08.R1', PACKPY,
        'FileStoragePacker.copyOne',
        '''        self.index.update(self.tindex)
        self.tindex.clear()
        self._commit_lock.acquire()
        self.locked = True
        return ipos''', '''        self._commit_lock.acquire()
        self.index.update(self.tindex)
        self.tindex.clear()
        self.locked = True
        return ipos''')
breaker('C08', 'packer-cleanup-before-release', 'C08.R1', PACKPY,
        'FileStoragePacker.pack',
        '''            try:
                close_files_remove()
            finally:
                # the cleanup can fail, too (e.g. flushing on a full disk)
                if self.locked:
                    self._commit_lock.release()
            raise  # don't succeed silently''',
        '''            close_files_remove()
            if self.locked:
                self._commit_lock.release()
            raise  # don't succeed silently''')
breaker('C08', 'packer-no-release-on-error', 'C08.R1', PACKPY,
        'FileStoragePacker.pack',
        '''        except:  # noqa: E722 do not use bare 'except'
            if self.locked:
                self._commit_lock.release()
            raise''', '''        except:  # noqa: E722 do not use bare 'except'
            raise''')
breaker('C08', 'packer-releases-before-return', 'C08.R1', PACKPY,
        'FileStoragePacker.pack',
        '''            if self.blob_removed is not None:
                self.blob_removed.close()

            return pos''', '''            if self.blob_removed is not None:
                self.blob_removed.close()
            self._commit_lock.release()
            self.locked = False

            return pos''')
breaker('C08', 'swap-after-commit-lock-release', 'C08.R2', FSPY,
        'FileStorage.pack',
        '''            have_commit_lock = True
            opos, index = pack_result
            with self._files.write_lock():''',
        '''            have_commit_lock = False
            self._commit_lock.release()
            opos, index = pack_result
            with self._files.write_lock():''')
breaker('C08', 'swap-without-storage-lock', 'C08.R2', FSPY, 'FileStorage.pack',
        '''            with self._files.write_lock():
                with self._lock:
                    self._files.empty()''', '''            with self._files.write_lock():
                if True:
                    self._files.empty()''')
breaker('C08', 'pack-double-release', 'C08.R2', FSPY, 'FileStorage.pack',
        '''                self._commit_lock.release()
                have_commit_lock = False
                self._remove_blob_files''', '''                self._commit_lock.release()
                self._remove_blob_files''')
breaker('C08', 'pack-flag-not-reset', 'C08.R3', FSPY, 'FileStorage.pack',
        '''            with self._lock:
                self._pack_is_in_progress = False

        if not self.pack_keep_old:''', '''            pass

        if not self.pack_keep_old:''')
breaker('C08', 'pack-flag-set-outside-lock', 'C08.R3', FSPY, 'FileStorage.pack',
        '''        with self._lock:
            if self._pack_is_in_progress:
                raise FileStorageError('Already packing')
            self._pack_is_in_progress = True''',
        '''        with self._lock:
            if self._pack_is_in_progress:
                raise FileStorageError('Already packing')
        self._pack_is_in_progress = True''')
breaker('C08', 'pack-removals-before-try', 'C08.R3', FSPY, 'FileStorage.pack',
        '''        have_commit_lock = False
        try:
            if os.path.exists(oldpath):
                os.remove(oldpath)''', '''        have_commit_lock = False
        if os.path.exists(oldpath + '.bak'):
            os.remove(oldpath + '.bak')
        try:
            if os.path.exists(oldpath):
                os.remove(oldpath)''')
breaker('C08', 'packer-ioerror-keeps-pack-file', 'C08.R4', PACKPY,
        'FileStoragePacker.pack',
        '''        except OSError:
            # most probably ran out of disk space or some other IO error
            close_files_remove()
            raise  # don't succeed silently

        assert ipos''', '''        except OSError:
            # most probably ran out of disk space or some other IO error
            raise  # don't succeed silently

        assert ipos''')
breaker('C08', 'failed-rename-not-reopened', 'C08.R4', FSPY, 'FileStorage.pack',
        '''                    except Exception:
                        self._file = open(self._file_name, 'r+b')
                        raise''', '''                    except Exception:
                        raise''')
twin('C08', 'pack-try-else-structure', FSPY, 'FileStorage.pack',
     '''            if self.blob_dir:
                self._commit_lock.release()
                have_commit_lock = False
                self._remove_blob_files_tagged_for_removal_during_pack()''',
     '''            self._commit_lock.release()
            have_commit_lock = False
            if self.blob_dir:
                self._remove_blob_files_tagged_for_removal_during_pack()''')
twin('C08', 'pack-rename-oldpath', FSPY, 'FileStorage.pack',
     '''                    try:
                        os.rename(self._file_name, oldpath)
                    except Exception:''', '''                    previous = oldpath
                    try:
                        os.rename(self._file_name, previous)
                    except Exception:''')

# ---------------------------------------------------------------- C11
SERPY = 'ZODB/serialize.py'
breaker('C11', 'add-register-unprotected', 'C11.R1', CONNPY, 'Connection._add',
        '''        try:
            self._register(obj)
        except:  # noqa: E722 do not use bare 'except'
            # We could not join the transaction: the object is not ours.
            del obj._p_jar
            del obj._p_oid
            raise''', '''        self._register(obj)''')
breaker('C11', 'store-objects-no-drain', 'C11.R1', CONNPY,
        'Connection._store_objects',
        '''            for obj in writer:
                del obj._p_jar
                del obj._p_oid
            raise''', '''            raise''')
breaker('C11', 'creating-not-cached-early', 'C11.R1', CONNPY,
        'Connection._store_objects_of',
        '''                try:
                    self._cache[oid] = obj
                except:  # noqa: E722 do not use bare 'except'
                    pass  # wrapped object: handled after the store, below
''', '')
breaker('C11', 'abort-skips-cleanup', 'C11.R2', CONNPY, 'Connection.abort',
        '''            self._abort_savepoint()

        self._tpc_cleanup()''', '''            self._abort_savepoint()
''')
breaker('C11', 'cleanup-keeps-registered', 'C11.R2', CONNPY,
        'Connection._tpc_cleanup',
        '''        self._registered_objects = []
''', '')
breaker('C11', 'finish-serial-z64', 'C11.R3', CONNPY, 'Connection.tpc_finish',
        'obj._p_serial = serial', 'obj._p_serial = z64')
breaker('C11', 'finish-skips-creating', 'C11.R3', CONNPY, 'Connection.tpc_finish',
        'for oid_iterator in self._modified, self._creating:',
        'for oid_iterator in (self._modified,):')
breaker('C11', 'tpc-abort-no-invalidate-creating', 'C11.R4', CONNPY,
        'Connection.tpc_abort',
        '''        self._invalidate_creating()
        self._cache.invalidate(self._modified)
        while self._added:''', '''        self._cache.invalidate(self._modified)
        while self._added:''')
breaker('C11', 'disown-only-jar', 'C11.R4', CONNPY,
        'Connection._invalidate_creating',
        '''                del o._p_jar
                del o._p_oid''', '''                del o._p_jar''')
breaker('C11', 'close-while-joined', 'C11.R5', CONNPY, 'Connection.close',
        '''        if not self._needs_to_join or (primary and any(
                not connection._needs_to_join
                for connection in self.connections.values())):
            # We (or, for a primary connection, one of the connections that
            # are closed with us) are currently joined to a transaction.
            raise ConnectionStateError("Cannot close a connection joined to "
                                       "a transaction")
''', '')
breaker('C11', 'persistent-id-no-queue', 'C11.R6', SERPY,
        'ObjectWriter.persistent_id',
        '''            oid = obj._p_oid = self._jar.new_oid()
            obj._p_jar = self._jar
            self._stack.append(obj)''',
        '''            oid = obj._p_oid = self._jar.new_oid()
            obj._p_jar = self._jar''')
twin('C11', 'disown-order-swapped', CONNPY, 'Connection._invalidate_creating',
     '''                del o._p_jar
                del o._p_oid''', '''                del o._p_oid
                del o._p_jar''')
twin('C11', 'abort-drain-helper', CONNPY, 'Connection.tpc_abort',
     '''        self._invalidate_creating()
        self._cache.invalidate(self._modified)''', '''        modified = self._modified
        self._invalidate_creating()
        self._cache.invalidate(modified)''')

# ---------------------------------------------------------------- C16
breaker('C16', 'ds-pack-base', 'C16.R1', DSPY, 'DemoStorage.pack',
        '''        try:
            self.changes.pack(t, referencesf, gc=False)''',
        '''        try:
            self.base.pack(t, referencesf, gc=False)
            self.changes.pack(t, referencesf, gc=False)''')
breaker('C16', 'ds-begin-on-base', 'C16.R1', DSPY, 'DemoStorage.tpc_begin',
        '''        self.changes.tpc_begin(transaction, *a, **k)''',
        '''        self.changes.tpc_begin(transaction, *a, **k)
        self.base.tpc_begin(transaction, *a, **k)''')
breaker('C08', 'ds-begin-changes-under-shared-lock', 'C08.R15', DSPY,
        'DemoStorage.tpc_begin',
        '''            del self._resolved[:]
        # (Not under the storage lock, which is the changes storage's own:
        # its tpc_begin waits for its commit lock, and a file storage that
        # is being packed takes the storage lock while it holds that.)
        self.changes.tpc_begin(transaction, *a, **k)''',
        '''            del self._resolved[:]
            self.changes.tpc_begin(transaction, *a, **k)''')
breaker('C16', 'ds-finish-not-delegated', 'C16.R2', DSPY,
        'DemoStorage.tpc_finish',
        'tid = self.changes.tpc_finish(transaction, func)',
        'tid = self.changes.lastTransaction()')
breaker('C16', 'ds-store-changes-only-lookup', 'C16.R3', DSPY,
        'DemoStorage.store',
        'old = load_current(self, oid)[1]',
        'old = load_current(self.changes, oid)[1]')
breaker('C16', 'ds-loadserial-base-first', 'C16.R5', DSPY,
        'DemoStorage.loadSerial',
        '''        try:
            return self.changes.loadSerial(oid, serial)
        except ZODB.POSException.POSKeyError:
            return self.base.loadSerial(oid, serial)''',
        '''        try:
            return self.base.loadSerial(oid, serial)
        except ZODB.POSException.POSKeyError:
            return self.changes.loadSerial(oid, serial)''')
breaker('C16', 'ds-copies-lasttransaction', 'C16.R6', DSPY,
        'DemoStorage._copy_methods_from_changes',
        "'sortKey', 'tpc_transaction',",
        "'sortKey', 'tpc_transaction', 'lastTransaction',")
twin('C16', 'ds-gettid-rename', DSPY, 'DemoStorage.getTid',
     '''        try:
            return self.changes.getTid(oid)
        except ZODB.POSException.POSKeyError:
            return self.base.getTid(oid)''',
     '''        changes = self.changes
        try:
            return changes.getTid(oid)
        except ZODB.POSException.POSKeyError:
            return self.base.getTid(oid)''')

# ---------------------------------------------------------------- C02
MVCCPY = 'ZODB/mvccadapter.py'
breaker('C02', 'fs-finish-callback-after-finish', 'C02.R1', FSPY,
        'FileStorage.tpc_finish',
        '''                    if f is not None:
                        f(tid)
                    self._finish(tid, *self._ude)''',
        '''                    self._finish(tid, *self._ude)
                    if f is not None:
                        f(tid)''')
breaker('C02', 'bs-finish-callback-after-hook', 'C02.R1', BSPY,
        'BaseStorage.tpc_finish',
        '''                if f is not None:
                    f(self._tid)
                u, d, e = self._ude
                self._finish(self._tid, u, d, e)''',
        '''                u, d, e = self._ude
                self._finish(self._tid, u, d, e)
                if f is not None:
                    f(self._tid)''')
breaker('C02', 'ms-finish-callback-last', 'C02.R1', MSPY,
        'MappingStorage.tpc_finish',
        '''        tid = self._tid
        func(tid)

        tdata = self._tdata''', '''        tid = self._tid

        tdata = self._tdata''')
breaker('C02', 'fs-finish-callback-outside-lock', 'C02.R1', FSPY,
        'FileStorage.tpc_finish',
        '''        with self._files.write_lock():
            with self._lock:
                if transaction is not self._transaction:
                    raise StorageTransactionError(
                        "tpc_finish called with wrong transaction")
                try:
                    tid = self._tid
                    if f is not None:
                        f(tid)''',
        '''        if f is not None and transaction is self._transaction:
            f(self._tid)
        with self._files.write_lock():
            with self._lock:
                if transaction is not self._transaction:
                    raise StorageTransactionError(
                        "tpc_finish called with wrong transaction")
                try:
                    tid = self._tid''')
breaker('C02', 'ds-finish-drops-callback', 'C02.R2', DSPY,
        'DemoStorage.tpc_finish',
        'tid = self.changes.tpc_finish(transaction, func)',
        'tid = self.changes.tpc_finish(transaction)')
breaker('C02', 'mvcc-callback-before-invalidate', 'C02.R2', MVCCPY,
        'MVCCAdapterInstance.tpc_finish',
        '''            self._base._invalidate_finish(tid, modified, self)
            self._ltid = tid
            func(tid)''', '''            func(tid)
            self._base._invalidate_finish(tid, modified, self)
            self._ltid = tid''')
breaker('C02', 'undo-adapter-no-invalidate', 'C02.R2', MVCCPY,
        'UndoAdapterInstance.tpc_finish',
        '''            self._base._invalidate_finish(tid, self._undone, None)
''', '')
breaker('C02', 'load-before-maxtid', 'C02.R3', MVCCPY,
        'MVCCAdapterInstance.load',
        'r = self._storage.loadBefore(oid, self._start)',
        'r = self._storage.loadBefore(oid, self._ltid)')
breaker('C02', 'poll-start-without-lock', 'C02.R3', MVCCPY,
        'MVCCAdapterInstance.poll_invalidations',
        '''        with self._lock:
            # So we must pick the greatest value.
            self._start = p64(u64(max(ltid, self._ltid)) + 1)''',
        '''        self._start = p64(u64(max(ltid, self._ltid)) + 1)
        with self._lock:
            # So we must pick the greatest value.''')
breaker('C02', 'poll-start-ignores-invalidated-tid', 'C02.R3', MVCCPY,
        'MVCCAdapterInstance.poll_invalidations',
        'self._start = p64(u64(max(ltid, self._ltid)) + 1)',
        'self._start = p64(u64(ltid) + 1)')
breaker('C02', 'poll-start-off-by-one', 'C02.R3', MVCCPY,
        'MVCCAdapterInstance.poll_invalidations',
        'self._start = p64(u64(max(ltid, self._ltid)) + 1)',
        'self._start = p64(u64(max(ltid, self._ltid)))')
breaker('C02', 'start-moved-by-load', 'C02.R3', MVCCPY,
        'MVCCAdapterInstance.sync',
        '''        if force:
            self._sync()''', '''        if force:
            self._sync()
            self._start = p64(u64(self._storage.lastTransaction()) + 1)''')
breaker('C02', 'invalidate-without-lock', 'C02.R4', MVCCPY,
        'MVCCAdapterInstance._invalidate',
        '''        with self._lock:
            self._ltid = tid''', '''        if True:
            self._ltid = tid''')
breaker('C02', 'invalidate-finish-without-adapter-lock', 'C02.R5', MVCCPY,
        'MVCCAdapter._invalidate_finish',
        '''        with self._lock:
            for instance in self._instances:
                if instance is not committing_instance:''',
        '''        if True:
            for instance in self._instances:
                if instance is not committing_instance:''')
breaker('C02', 'new-instance-not-registered', 'C02.R5', MVCCPY,
        'MVCCAdapter.new_instance',
        '''        with self._lock:
            self._instances.add(instance)
''', '')
breaker('C02', 'close-releases-instance', 'C02.R5', CONNPY, 'Connection.close',
        '''        if hasattr(self._storage, 'afterCompletion'):
            self._storage.afterCompletion()

        if primary:''', '''        if hasattr(self._storage, 'afterCompletion'):
            self._storage.afterCompletion()
        self._storage.release()

        if primary:''')
breaker('C02', 'boundary-does-not-invalidate-cache', 'C02.R6', CONNPY,
        'Connection.newTransaction',
        '''        self._cache.invalidate(invalidated)
''', '''        pass
''')
breaker('C02', 'open-skips-new-transaction', 'C02.R6', CONNPY,
        'Connection.open',
        '''            self.newTransaction(None, False)
''', '''            pass
''')
breaker('C02', 'load-uses-shared-handle', 'C02.R7', FSPY, 'FileStorage.load',
        'h = self._read_data_header(pos, oid, _file)',
        'h = self._read_data_header(pos, oid)')
breaker('C02', 'loadserial-without-lock', 'C02.R7', FSPY,
        'FileStorage.loadSerial',
        '''        with self._lock:
            pos = self._lookup_pos(oid)
            while 1:''', '''        if True:
            pos = self._lookup_pos(oid)
            while 1:''')
breaker('C02', 'pool-writer-announces-late', 'C02.R8', FSPY,
        'FilePool.write_lock',
        '''            self.writers += 1
            while self.writing or self._out:
                self._cond.wait()''', '''            while self.writing or self._out:
                self._cond.wait()
            self.writers += 1''')
breaker('C02', 'pool-reader-does-not-wait', 'C02.R8', FSPY, 'FilePool.get',
        '''            while self.writers:
                self._cond.wait()
            assert not self.writing''', '''            assert not self.writing''')
breaker('C02', 'poll-last-transaction-under-instance-lock', 'C02.R9', MVCCPY,
        'MVCCAdapterInstance.poll_invalidations',
        '''        ltid = self._storage.lastTransaction()
        # But at this precise moment, a transaction may be committed and
        # we have already received the new tid, along with invalidations.
        with self._lock:''', '''        with self._lock:
            ltid = self._storage.lastTransaction()''')
breaker('C02', 'store-flushes-pool-under-lock', 'C02.R9', FSPY,
        'FileStorage.getTid',
        '''        with self._lock:
            pos = self._lookup_pos(oid)
            h = self._read_data_header(pos, oid)''', '''        with self._lock:
            self._files.flush()
            pos = self._lookup_pos(oid)
            h = self._read_data_header(pos, oid)''')
twin('C02', 'poll-rename-ltid', MVCCPY, 'MVCCAdapterInstance.poll_invalidations',
     '''        ltid = self._storage.lastTransaction()
        # But at this precise moment, a transaction may be committed and
        # we have already received the new tid, along with invalidations.
        with self._lock:
            # So we must pick the greatest value.
            self._start = p64(u64(max(ltid, self._ltid)) + 1)''',
     '''        storage_tid = self._storage.lastTransaction()
        # But at this precise moment, a transaction may be committed and
        # we have already received the new tid, along with invalidations.
        with self._lock:
            # So we must pick the greatest value.
            newest = max(self._ltid, storage_tid)
            self._start = p64(u64(newest) + 1)''')
twin('C02', 'load-explicit-handle-keyword', FSPY, 'FileStorage.load',
     'h = self._read_data_header(pos, oid, _file)',
     'h = self._read_data_header(pos, oid, _file=_file)')

# ---------------------------------------------------------------- C10
CRPY = 'ZODB/ConflictResolution.py'
breaker('C10', 'resolver-old-committed-swapped', 'C10.R1', CRPY,
        'tryToResolveConflict',
        'resolved = resolve(old, committed, newstate)',
        'resolved = resolve(committed, old, newstate)')
breaker('C10', 'resolver-old-from-committed-serial', 'C10.R1', CRPY,
        'tryToResolveConflict',
        'oldData = self.loadSerial(oid, oldSerial)',
        'oldData = self.loadSerial(oid, committedSerial)')
breaker('C10', 'fs-store-serials-swapped', 'C10.R1', FSPY, 'FileStorage.store',
        '''data = self.tryToResolveConflict(oid, committed_tid,
                                                     oldserial, data)''',
        '''data = self.tryToResolveConflict(oid, oldserial,
                                                     committed_tid, data)''')
breaker('C10', 'undo-resolve-wrong-base', 'C10.R1', FSPY,
        'FileStorage._transactionalUndoRecord',
        '''            data = self.tryToResolveConflict(
                oid, ctid, tid, pre_data, current_data)''',
        '''            data = self.tryToResolveConflict(
                oid, ctid, tid, current_data, pre_data)''')
breaker('C10', 'resolver-returns-new-pickle', 'C10.R2', CRPY,
        'tryToResolveConflict',
        'return self._crs_transform_record_data(file.getvalue())',
        'return self._crs_transform_record_data(newpickle)')
breaker('C10', 'resolver-swallows-failure', 'C10.R2', CRPY,
        'tryToResolveConflict',
        '''    raise ConflictError(oid=oid, serials=(committedSerial, oldSerial),
                        data=newpickle)''', '''    return newpickle''')
breaker('C10', 'resolver-pickles-newstate', 'C10.R2', CRPY,
        'tryToResolveConflict',
        'pickler.dump(resolved)', 'pickler.dump(newstate)')
breaker('C10', 'fs-store-resolved-not-recorded', 'C10.R4', FSPY,
        'FileStorage.store',
        '''                    self._resolved.append(oid)
''', '')
breaker('C10', 'ds-vote-returns-nothing', 'C10.R4', DSPY, 'DemoStorage.tpc_vote',
        'return self._resolved', 'return []')
breaker('C10', 'bs-begin-keeps-resolved', 'C10.R4', BSPY,
        'BaseStorage.tpc_begin',
        '''            del self._resolved[:]
''', '')
breaker('C10', 'connection-keeps-resolved-copy', 'C10.R5', CONNPY,
        'Connection.tpc_vote',
        '''                if obj is not None:
                    del obj._p_changed  # transition from changed to ghost''',
        '''                if obj is not None:
                    pass''')
twin('C10', 'resolver-rename-locals', CRPY, 'tryToResolveConflict',
     '''        old = state(self, oid, oldSerial, prfactory, oldData)
        committed = state(self, oid, committedSerial, prfactory, committedData)

        resolved = resolve(old, committed, newstate)''',
     '''        base = state(self, oid, oldSerial, prfactory, oldData)
        theirs = state(self, oid, committedSerial, prfactory, committedData)

        resolved = resolve(base, theirs, newstate)''')

# ---------------------------------------------------------------- C06
breaker('C06', 'undo-accepts-packed', 'C06.R2', FSPY,
        'FileStorage._txn_undo_write',
        '''        if th.status != " ":
            raise UndoError('non-undoable transaction')
''', '')
breaker('C06', 'undo-status-check-inverted', 'C06.R2', FSPY,
        'FileStorage._txn_undo_write',
        'if th.status != " ":', 'if th.status == "u":')
breaker('C06', 'undo-partial-success', 'C06.R3', FSPY,
        'FileStorage._txn_undo_write',
        '''        if failures:
            raise MultipleUndoErrors(list(failures.items()))
''', '')
breaker('C06', 'undo-creation-ignores-later-change', 'C06.R4', FSPY,
        'FileStorage._transactionalUndoRecord',
        '''                        if not pre:
                            # The transaction we're undoing has no
                            # previous state to merge with, so we
                            # can't resolve a conflict.
                            raise UndoError(
                                "Can't undo an add transaction followed by"
                                " conflicting transactions.", oid)
''', '')
breaker('C06', 'undo-copies-despite-difference', 'C06.R4', FSPY,
        'FileStorage._transactionalUndoRecord',
        '''        if copy:
            # we can just copy our previous-record pointer forward
            return "", pre, ipos''', '''        if copy or cdataptr:
            # we can just copy our previous-record pointer forward
            return "", pre, ipos''')
breaker('C06', 'undo-resolve-failure-swallowed', 'C06.R4', FSPY,
        'FileStorage._transactionalUndoRecord',
        '''        except ConflictError:
            pass

        raise UndoError("Some data were modified by a later transaction", oid)''',
        '''        except ConflictError:
            pass

        return "", pre, ipos''')
breaker('C06', 'undo-adapter-forgets-oids', 'C06.R6', MVCCPY,
        'UndoAdapterInstance.undo',
        '''        if result:
            self._undone.update(result[1])
''', '')
breaker('C06', 'undo-adapter-vote-result-dropped', 'C06.R6', MVCCPY,
        'UndoAdapterInstance.tpc_vote',
        '''        if result:
            self._undone.update(result)''', '''        return result''')
twin('C06', 'undo-status-eq-form', FSPY, 'FileStorage._txn_undo_write',
     '''        if th.status != " ":
            raise UndoError('non-undoable transaction')''',
     '''        if th.status == " ":
            pass
        else:
            raise UndoError('non-undoable transaction')''')

# ---------------------------------------------------------------- C07
breaker('C07', 'gc-no-future-pass', 'C07.R1', PACKPY, 'GC.findReachable',
        '''            self.findReachableFromFuture()
''', '')
breaker('C07', 'gc-wrong-root', 'C07.R1', PACKPY, 'GC.findReachable',
        'self.findReachableAtPacktime([z64])',
        'self.findReachableAtPacktime(list(self.oid2curpos.keys())[:1])')
breaker('C07', 'gc-future-backpointer-not-marked', 'C07.R2', PACKPY,
        'GC.findReachableFromFuture',
        '''                    if dh.back not in L:
                        L.append(dh.back)
                        extra_roots.append(dh.back)''',
        '''                    if dh.back not in L:
                        extra_roots.append(dh.back)''')
breaker('C07', 'gc-extra-roots-not-traversed', 'C07.R2', PACKPY,
        'GC.findReachableFromFuture',
        '''            refs = [oid for oid in self.findrefs(pos)
                    if oid in self.oid2curpos]
            self.findReachableAtPacktime(refs)''', '''            pass''')
breaker('C07', 'copy-skips-reachable-record', 'C07.R3', PACKPY,
        'FileStoragePacker.copyDataRecords',
        '''            pos += h.recordlen()

            # If we are going to copy any data, we need to copy''',
        '''            pos += h.recordlen()
            if not h.plen and not h.back and copy:
                continue

            # If we are going to copy any data, we need to copy''')
breaker('C07', 'copyone-skips-backpointer-records', 'C07.R3', PACKPY,
        'FileStoragePacker.copyOne',
        '''                data = self.fetchDataViaBackpointer(h.oid, h.back)
                if h.back:
                    prev_txn = self.getTxnFromData(h.oid, h.back)''',
        '''                data = self.fetchDataViaBackpointer(h.oid, h.back)
                if h.back:
                    prev_txn = self.getTxnFromData(h.oid, h.back)
                if data is None and not h.back:
                    continue''')
breaker('C07', 'copyone-wrong-tid', 'C07.R3', PACKPY,
        'FileStoragePacker.copyOne',
        'self._copier.copy(h.oid, h.tid, data, prev_txn,',
        'self._copier.copy(h.oid, th.tid, data, prev_txn,')
breaker('C07', 'packed-header-status-kept', 'C07.R5', PACKPY,
        'FileStoragePacker.copyDataRecords',
        '''                th.status = "p"
''', '')
breaker('C07', 'pack-no-time-check', 'C07.R6', FSPY, 'FileStorage.pack',
        '''        if stop == z64:
            raise FileStorageError('Invalid pack time')
''', '')
breaker('C07', 'pack-empty-check-late', 'C07.R6', FSPY, 'FileStorage.pack',
        '''        # If the storage is empty, there's nothing to do.
        if not self._index:
            return

        with self._lock:
            if self._pack_is_in_progress:
                raise FileStorageError('Already packing')
            self._pack_is_in_progress = True
''', '''        with self._lock:
            if self._pack_is_in_progress:
                raise FileStorageError('Already packing')
            self._pack_is_in_progress = True
        # If the storage is empty, there's nothing to do.
        if not self._index:
            with self._lock:
                self._pack_is_in_progress = False
            return
''')
breaker('C07', 'ms-pack-drops-current', 'C07.R7', MSPY, 'MappingStorage.pack',
        '''                tids_to_remove.pop()    # Keep the last, if any

''', '')
twin('C07', 'gc-findreachable-reordered-guard', PACKPY, 'GC.findReachable',
     '''        if self.gc:
            self.findReachableAtPacktime([z64])
            self.findReachableFromFuture()
            # These mappings are no longer needed and may consume a lot of
            # space.
            del self.oid2curpos
        else:
            self.reachable = self.oid2curpos''',
     '''        if not self.gc:
            self.reachable = self.oid2curpos
        else:
            self.findReachableAtPacktime([z64])
            self.findReachableFromFuture()
            # These mappings are no longer needed and may consume a lot of
            # space.
            del self.oid2curpos''')

# ---------------------------------------------------------------- C14
breaker('C14', 'writer-unknown-tag', 'C14.R1', SERPY, 'ObjectWriter.persistent_id',
        "return ['n', (database_name, oid)]", "return ['x', (database_name, oid)]")
breaker('C14', 'writer-m-field-order', 'C14.R1', SERPY,
        'ObjectWriter.persistent_id',
        "return ['m', (database_name, oid, klass)]",
        "return ['m', (oid, database_name, klass)]")
breaker('C14', 'reader-n-loader-removed', 'C14.R1', SERPY, 'ObjectReader',
        "    loaders['n'] = load_multi_oid\n", "")
breaker('C14', 'cr-m-arity', 'C14.R1', CRPY, 'PersistentReference.__init__',
        "self.database_name, self.oid, klass = data[1]",
        "self.database_name, self.oid = data[1][:2]; klass = None")
breaker('C14', 'load-oid-no-normalise', 'C14.R2', SERPY, 'ObjectReader.load_oid',
        '''        if not isinstance(oid, bytes):
            assert isinstance(oid, str)
            # this happens when all bytes in the oid are < 0x80
            oid = oid.encode('ascii')
        obj = self._cache.get(oid, None)
        if obj is not None:
            return obj
        return self._conn.get(oid)''', '''        obj = self._cache.get(oid, None)
        if obj is not None:
            return obj
        return self._conn.get(oid)''')
breaker('C14', 'referencesf-no-normalise', 'C14.R2', SERPY, 'referencesf',
        '''        if not isinstance(oid, bytes):
            assert isinstance(oid, str)
            # this happens when all bytes in the oid are < 0x80
            oid = oid.encode('ascii')

        oids.append(oid)''', '''        oids.append(oid)''')
breaker('C14', 'persistent-id-by-value-for-foreign', 'C14.R3', SERPY,
        'ObjectWriter.persistent_id',
        '''            if not self._jar.db().xrefs:
                raise InvalidObjectReference(''',
        '''            if self._jar.db().xrefs is None:
                return None
            if not self._jar.db().xrefs:
                raise InvalidObjectReference(''')
breaker('C14', 'load-persistent-no-cache-lookup', 'C14.R4', SERPY,
        'ObjectReader.load_persistent',
        '''        obj = self._cache.get(oid, None)
        if obj is not None:
            return obj

        if isinstance(klass, tuple):''', '''        if isinstance(klass, tuple):''')
breaker('C14', 'load-persistent-ghost-not-registered', 'C14.R4', SERPY,
        'ObjectReader.load_persistent',
        '''        self._cache.new_ghost(oid, obj)
        return obj''', '''        return obj''')
breaker('C14', 'referencesf-includes-weak', 'C14.R5', SERPY, 'referencesf',
        '''            assert isinstance(reference, list)
            continue

        if not isinstance(oid, bytes):
            assert isinstance(oid, str)
            # this happens when all bytes in the oid are < 0x80
            oid = oid.encode('ascii')

        oids.append(oid)''', '''            assert isinstance(reference, list)
            oid = reference[1][0]

        if not isinstance(oid, bytes):
            assert isinstance(oid, str)
            # this happens when all bytes in the oid are < 0x80
            oid = oid.encode('ascii')

        oids.append(oid)''')
breaker('C14', 'referencesf-tuple-element-1', 'C14.R5', SERPY, 'referencesf',
        'oid = reference[0]', 'oid = reference[1]')
breaker('C14', 'referencesf-drops-bare', 'C14.R5', SERPY, 'referencesf',
        '''        elif isinstance(reference, (bytes, str)):
            oid = reference
        else:''', '''        elif isinstance(reference, (bytes, str)):
            continue
        else:''')
twin('C14', 'referencesf-branches-reordered', SERPY, 'referencesf',
     '''        if isinstance(reference, tuple):
            oid = reference[0]
        elif isinstance(reference, (bytes, str)):
            oid = reference
        else:''', '''        if isinstance(reference, (bytes, str)):
            oid = reference
        elif isinstance(reference, tuple):
            oid = reference[0]
        else:''')

# ---------------------------------------------------------------- C15
DBPY = 'ZODB/DB.py'
breaker('C15', 'historical-load-maxtid', 'C15.R1', MVCCPY,
        'HistoricalStorageAdapter.load',
        'r = self._storage.loadBefore(oid, self._before)',
        'r = self._storage.loadBefore(oid, maxtid)')
breaker('C15', 'historical-bound-moves', 'C15.R1', MVCCPY,
        'HistoricalStorageAdapter.sync',
        '''        pass''', '''        if force:
            self._before = self._storage.lastTransaction()''')
breaker('C15', 'historical-forwards-store', 'C15.R2', MVCCPY,
        'HistoricalStorageAdapter',
        "'loadSerial', 'tpc_begin', 'tpc_finish', 'tpc_abort', 'tpc_vote',",
        "'loadSerial', 'tpc_begin', 'tpc_finish', 'tpc_abort', 'tpc_vote', 'storeBlob',")
breaker('C15', 'historical-store-not-stub', 'C15.R2', MVCCPY,
        'HistoricalStorageAdapter',
        'new_oid = pack = store = read_only_writer',
        'new_oid = pack = read_only_writer')
breaker('C15', 'commit-no-history-check', 'C15.R3', CONNPY, 'Connection._commit',
        '''        if self.before is not None:
            raise ReadOnlyHistoryError()
''', '')
breaker('C15', 'at-not-advanced', 'C15.R4', DBPY, 'getTID',
        'before = at.laterThan(at).raw()', 'before = at.raw()')
breaker('C15', 'future-check-dropped', 'C15.R4', DBPY, 'DB.open',
        '''        if (before is not None and
            before > self.lastTransaction() and
                before > getTID(self.lastTransaction(), None)):
            raise ValueError(
                'cannot open an historical connection in the future.')
''', '')
twin('C15', 'historical-load-rename', MVCCPY, 'HistoricalStorageAdapter.load',
     '''        r = self._storage.loadBefore(oid, self._before)
        if r is None:''', '''        storage = self._storage
        r = storage.loadBefore(oid, self._before)
        if r is None:''')

# ---------------------------------------------------------------- C18
RZPY = 'ZODB/scripts/repozo.py'
breaker('C18', 'full-backup-raw-size', 'C18.R1', RZPY, 'do_full_backup',
        '    pos = fs.getSize()\n', '    pos = os.path.getsize(options.file)\n')
breaker('C18', 'incremental-not-read-only', 'C18.R1', RZPY,
        'do_incremental_backup',
        'fs = FileStorage(options.file, read_only=True)',
        'fs = FileStorage(options.file)')
breaker('C18', 'copyfile-rename-before-sync', 'C18.R2', RZPY, 'copyfile',
        '''    fsync(ofp)
    ofp.close()
    os.rename(tempname, dst)''', '''    ofp.close()
    os.rename(tempname, dst)''')
breaker('C18', 'recover-writes-in-place', 'C18.R2', RZPY, 'do_recover',
        "temporary_output_file = options.output + '.part'",
        "temporary_output_file = options.output")
breaker('C18', 'dat-line-wrong-end', 'C18.R3', RZPY, 'do_incremental_backup',
        'print(dest, reposz, pos, sum, file=fp)',
        'print(dest, reposz, pos - reposz, sum, file=fp)')
breaker('C18', 'incremental-copies-too-much', 'C18.R3', RZPY,
        'do_incremental_backup',
        'sum = copyfile(options, dest, reposz, pos - reposz)',
        'sum = copyfile(options, dest, reposz, pos)')
breaker('C18', 'verify-no-checksum', 'C18.R4', RZPY, 'do_verify',
        '''            elif not options.quick:
                if actual_sum != sum:
                    raise VerificationFail(
                        f"{filename} has checksum {actual_sum}"
                        f"{when_uncompressed} instead of {sum}")''', '')
breaker('C18', 'verify-size-mismatch-logged-only', 'C18.R4', RZPY, 'do_verify',
        '''            if size != expected_size:
                raise VerificationFail(
                    "%s is %d bytes%s, should be %d bytes" % (
                        filename, size, when_uncompressed, expected_size))
            elif not options.quick:''', '''            if size != expected_size:
                log("%s is %d bytes%s, should be %d bytes",
                    filename, size, when_uncompressed, expected_size)
            elif not options.quick:''')
breaker('C18', 'incremental-without-prefix-check', 'C18.R5', RZPY, 'do_backup',
        '''        if reposum == srcsum_backedup:
            log('doing incremental, starting at: %s', reposz)''',
        '''        if srcsz > reposz:
            log('doing incremental, starting at: %s', reposz)''')
twin('C18', 'full-backup-rename-pos', RZPY, 'do_full_backup',
     '''    pos = fs.getSize()
''', '''    end_of_data = fs.getSize()
    pos = end_of_data
''')

# ------------------------------------------------------- more C01 / twins
breaker('C01', 'vote-no-seek-to-committed-end', 'C01.R3', FSPY,
        'FileStorage.tpc_vote',
        '''            self._file.seek(self._pos)
            tl = self._thl + dlen''', '''            tl = self._thl + dlen''')
breaker('C01', 'vote-seek-to-end-of-file', 'C01.R3', FSPY,
        'FileStorage.tpc_vote',
        'self._file.seek(self._pos)\n            tl =',
        'self._file.seek(0, 2)\n            tl =')
twin('C20', 'new-oid-explicit-acquire', BSPY, 'BaseStorage.set_max_oid',
     '''        with self._lock:
            if possible_new_max_oid > self._oid:
                self._oid = possible_new_max_oid''',
     '''        self._lock_acquire()
        try:
            if possible_new_max_oid > self._oid:
                self._oid = possible_new_max_oid
        finally:
            self._lock_release()''')
twin('C08', 'pack-flag-explicit-acquire', FSPY, 'FileStorage.pack',
     '''        with self._lock:
            if self._pack_is_in_progress:
                raise FileStorageError('Already packing')
            self._pack_is_in_progress = True''',
     '''        self._lock.acquire()
        try:
            if self._pack_is_in_progress:
                raise FileStorageError('Already packing')
            self._pack_is_in_progress = True
        finally:
            self._lock.release()''')
twin('C05', 'bs-finish-explicit-lock', BSPY, 'BaseStorage.tpc_abort',
     '''        with self._lock:

            if transaction is not self._transaction:
                return

            try:
                self._abort()
                self._clear_temp()
                self._transaction = None
            finally:
                self._commit_lock_release()''',
     '''        self._lock_acquire()
        try:
            if transaction is not self._transaction:
                return

            try:
                self._abort()
                self._clear_temp()
                self._transaction = None
            finally:
                self._commit_lock_release()
        finally:
            self._lock_release()''')

# ------------------------------------------------ C12 (after seeded round 1)
breaker('C12', 'loadblob-stale-savepoint-file', 'C12.R8', CONNPY,
        'TmpStore.loadBlob',
        '''        if oid not in self.index:
            # Not stored by a savepoint -- or, after a rollback, no
            # longer: a file left by a rolled-back store must not be found.
            return self._storage.loadBlob(oid, serial)
''', '')
breaker('C12', 'commit-savepoint-modified-per-object', 'C12.R9', CONNPY,
        'Connection._commit_savepoint',
        '''            self._modified.extend(oids)
            self._creating.update(src.creating)

            for oid in oids:''', '''            self._creating.update(src.creating)

            for oid in oids:
                self._modified.append(oid)''')
breaker('C12', 'commit-savepoint-creating-late', 'C12.R9', CONNPY,
        'Connection._commit_savepoint',
        '''            self._creating.update(src.creating)

            for oid in oids:''', '''            for oid in oids:''')
twin('C12', 'loadblob-membership-via-get', CONNPY, 'TmpStore.loadBlob',
     '''        if oid not in self.index:''',
     '''        if not (oid in self.index):''')

# ------------------------------------------- rules added after seeded round 1
breaker('C13', 'blobstorage-abort-cleanup-after-release', 'C13.R9', BLOBPY,
        'BlobStorage.tpc_abort',
        '''            dirty_oids, self.dirty_oids = self.dirty_oids, []
            self.__storage.tpc_abort(transaction, *arg, **kw)
            self._blob_remove_files(dirty_oids)''',
        '''            self.__storage.tpc_abort(transaction, *arg, **kw)
            self._blob_tpc_abort()''')
breaker('C13', 'blobstorage-finish-forget-after-release', 'C13.R9', BLOBPY,
        'BlobStorage.tpc_finish',
        '''        if self._blob_is_committing(transaction):
            self.dirty_oids = []  # the files are committed with the records
        return self.__storage.tpc_finish(transaction, *arg, **kw)''',
        '''        tid = self.__storage.tpc_finish(transaction, *arg, **kw)
        self.dirty_oids = []
        return tid''')
breaker('C13', 'packer-dup-test-only-for-pickles', 'C13.R8', PACKPY,
        'FileStoragePacker.copyDataRecords',
        '''                        rpos = self.gc.reachable.get(h.oid)
                        is_dup = (
                            rpos and self._read_data_header(rpos).tid == h.tid)''',
        '''                        is_dup = False
                        if h.plen:
                            rpos = self.gc.reachable.get(h.oid)
                            is_dup = (rpos and
                                      self._read_data_header(rpos).tid == h.tid)''')
breaker('C01', 'scan-checkpoint-test-conditional', 'C01.R6', FSPY, 'read_index',
        "if pos + (tl + 8) > file_size or status == 'c':",
        "if pos + (tl + 8) > file_size or (status == 'c' and tl > 0 and not read_only):")
breaker('C01', 'vote-cleanup-except-exception', 'C01.R4', FSPY,
        'FileStorage.tpc_vote',
        "            except:  # noqa: E722 do not use bare 'except'\n                # Hm, an error occurred writing out the data. Maybe the",
        "            except Exception:\n                # Hm, an error occurred writing out the data. Maybe the")
breaker('C03', 'readcurrent-skips-dirty', 'C03.R8', CONNPY,
        'Connection.readCurrent',
        '''        if ob._p_serial != z64:''', '''        if ob._p_changed:
            return
        if ob._p_serial != z64:''')
breaker('C05', 'ms-begin-keeps-staging', 'C05.R4', MSPY,
        'MappingStorage.tpc_begin',
        '''            self._tdata = {}
''', '''            self._tdata = getattr(self, '_tdata', {})
''')
breaker('C05', 'fs-clear-temp-shortcut', 'C05.R4', FSPY,
        'FileStorage._clear_temp',
        '''        self._tindex.clear()''', '''        if not self._tindex:
            return
        self._tindex.clear()''')
breaker('C05', 'bs-begin-reads-metadata-first', 'C05.R1', BSPY,
        'BaseStorage.tpc_begin',
        '''            self._transaction = transaction
            self._clear_temp()

            user = transaction.user
            desc = transaction.description
''', '''            user = transaction.user
            desc = transaction.description
            self._transaction = transaction
            self._clear_temp()
''')
breaker('C08', 'copyrest-stale-end-position', 'C08.R6', PACKPY,
        'FileStoragePacker.copyRest',
        '''        while ipos < self._storage.getSize():
            ipos = self.copyOne(ipos)''', '''        while ipos < self.file_end:
            ipos = self.copyOne(ipos)''')
breaker('C08', 'copyrest-until-read-fails', 'C08.R10', PACKPY,
        'FileStoragePacker.copyRest',
        '''        while ipos < self._storage.getSize():
            ipos = self.copyOne(ipos)''', '''        try:
            while 1:
                ipos = self.copyOne(ipos)
        except CorruptedDataError as err:
            self._file.seek(0, 2)
            endpos = self._file.tell()
            if endpos != err.pos:
                raise''')
breaker('C08', 'pack-end-from-file', 'C08.R10', PACKPY,
        'FileStoragePacker.pack',
        '''                self.file_end = self._storage.getSize()''',
        '''                self._file.seek(0, 2)
                self.file_end = self._file.tell()''')
twin('C08', 'copyrest-bound-in-local', PACKPY, 'FileStoragePacker.copyRest',
     '''        while ipos < self._storage.getSize():
            ipos = self.copyOne(ipos)''', '''        while True:
            if not ipos < self._storage.getSize():
                break
            ipos = self.copyOne(ipos)''')
breaker('C16', 'ds-loadbefore-ignores-pack-mark', 'C16.R14', DSPY,
        'DemoStorage.loadBefore',
        '''            if tid <= self._packed_to:''',
        '''            if False:''')
breaker('C16', 'ds-loadbefore-nothing-for-every-object', 'C16.R14', DSPY,
        'DemoStorage.loadBefore',
        '''                first = maxtid
                t = self.changes.loadBefore(oid, first)
                while t:
                    first = t[1]
                    t = self.changes.loadBefore(oid, first)
                if first <= self._packed_to:
                    return None''',
        '''                return None''')
breaker('C08', 'swap-pool-emptied-in-own-section', 'C08.R7', FSPY,
        'FileStorage.pack',
        '''            with self._files.write_lock():
                with self._lock:
                    self._files.empty()
                    self._file.close()''', '''            self._files.flush()
            with self._files.write_lock():
                with self._lock:
                    self._file.close()''')
breaker('C08', 'swap-fallible-step-after-close', 'C08.R7', FSPY,
        'FileStorage.pack',
        '''                    self._file.close()
                    try:
                        os.rename(self._file_name, oldpath)''',
        '''                    self._file.close()
                    if os.path.exists(oldpath + '.bak'):
                        os.remove(oldpath + '.bak')
                    try:
                        os.rename(self._file_name, oldpath)''')
breaker('C09', 'check-sanity-ltid-every-pass', 'C09.R6', FSPY,
        'FileStorage._check_sanity',
        '''            if not ltid:
                ltid = h.tid''', '''            ltid = h.tid''')
breaker('C19', 'load-eof-is-end', 'C19.R5', FSIPY, 'fsIndex.load',
        '''                v = unpickler.load()
                if not v:
                    break''', '''                try:
                    v = unpickler.load()
                except EOFError:
                    break
                if not v:
                    break''')
breaker('C11', 'register-flag-before-join', 'C11.R7', CONNPY,
        'Connection._register',
        '''            self.transaction_manager.get().join(self)
            self._needs_to_join = False''',
        '''            self._needs_to_join = False
            self.transaction_manager.get().join(self)''')
breaker('C11', 'store-objects-pickle-first', 'C11.R1', CONNPY,
        'Connection._store_objects_of',
        '''            serial = getattr(obj, "_p_serial", z64)

            if ((serial == z64)''', '''            serial = getattr(obj, "_p_serial", z64)
            p = writer.serialize(obj)

            if ((serial == z64)''')
breaker('C20', 'set-max-oid-check-outside-lock', 'C20.R1', BSPY,
        'BaseStorage.set_max_oid',
        '''        with self._lock:
            if possible_new_max_oid > self._oid:
                self._oid = possible_new_max_oid''',
        '''        if possible_new_max_oid > self._oid:
            with self._lock:
                self._oid = possible_new_max_oid''')
breaker('C20', 'ds-abort-forgets-issued', 'C20.R4', DSPY, 'DemoStorage.tpc_abort',
        '''            self._stored_oids = set()
            self._transaction = None
            self.changes.tpc_abort(transaction)''',
        '''            self._issued_oids.difference_update(self._stored_oids)
            self._stored_oids = set()
            self._transaction = None
            self.changes.tpc_abort(transaction)''')
breaker('C04', 'begin-tid-from-unsanitized', 'C04.R1', BSPY,
        'BaseStorage.tpc_begin',
        'self._ts = t = t.laterThan(self._ts)', 'self._ts = t.laterThan(self._ts)')
twin('C13', 'blobstorage-abort-else-first', BLOBPY, 'BlobStorage.tpc_abort',
     '''        if self._blob_is_committing(transaction):
            dirty_oids, self.dirty_oids = self.dirty_oids, []
            self.__storage.tpc_abort(transaction, *arg, **kw)
            self._blob_remove_files(dirty_oids)
        else:
            self.__storage.tpc_abort(transaction, *arg, **kw)''',
     '''        if not self._blob_is_committing(transaction):
            self.__storage.tpc_abort(transaction, *arg, **kw)
            return
        dirty_oids, self.dirty_oids = self.dirty_oids, []
        self.__storage.tpc_abort(transaction, *arg, **kw)
        self._blob_remove_files(dirty_oids)''')
twin('C09', 'check-sanity-guard-is-none', FSPY, 'FileStorage._check_sanity',
     '''            if not ltid:
                ltid = h.tid''', '''            if ltid is None:
                ltid = h.tid''')
twin('C01', 'scan-status-not-equal-form', FSPY, 'read_index',
     "if pos + (tl + 8) > file_size or status == 'c':",
     "if not (pos + (tl + 8) <= file_size and status != 'c'):")

# ------------------------------------------------- rules added in seeded round 2
breaker('C07', 'fs-data-find-first-match-break', 'C07.R8', FSPY,
        'FileStorage._data_find',
        '''            if h.oid == oid:
                data_hdr = h
                data_pos = pos
            pos += h.recordlen()''',
        '''            if h.oid == oid:
                data_hdr = h
                data_pos = pos
                break
            pos += h.recordlen()''')
twin('C07', 'copier-data-find-tuple-assign', PACKPY, 'PackCopier._data_find',
     '''            if h.oid == oid:
                data_hdr = h
                data_pos = pos
            pos += h.recordlen()''',
     '''            if h.oid == oid:
                data_hdr, data_pos = h, pos
            pos += h.recordlen()''')
twin('C10', 'prfactory-key-inline', CRPY,
     'PersistentReferenceFactory.persistent_load',
     '''        key = tuple(ref)
        # even after eliminating list/tuple distinction
        r = self.data.get(key, None)
        if r is None:
            r = PersistentReference(ref)
            self.data[key] = r''',
     '''        r = self.data.get(tuple(ref))
        if r is None:
            r = self.data[tuple(ref)] = PersistentReference(ref)''')
breaker('C10', 'prfactory-key-oid-only', 'C10.R6', CRPY,
        'PersistentReferenceFactory.persistent_load',
        '''        key = tuple(ref)
        # even after eliminating list/tuple distinction
        r = self.data.get(key, None)
        if r is None:
            r = PersistentReference(ref)
            self.data[key] = r''',
        '''        new = PersistentReference(ref)
        r = self.data.get(new.oid, None)
        if r is None:
            r = new
            self.data[new.oid] = r''')
breaker('C14', 'dump-truncate-before-rewind', 'C14.R6', SERPY,
        'ObjectWriter._dump',
        '''        self._file.seek(0)
        self._p.clear_memo()
        self._p.dump(classmeta)
        self._p.dump(state)
        self._file.truncate()
        return self._file.getvalue()''',
        '''        self._file.truncate()
        self._file.seek(0)
        self._p.clear_memo()
        self._p.dump(classmeta)
        self._p.dump(state)
        return self._file.getvalue()''')
twin('C14', 'dump-truncate-after-rewind', SERPY, 'ObjectWriter._dump',
     '''        self._file.seek(0)
        self._p.clear_memo()
        self._p.dump(classmeta)
        self._p.dump(state)
        self._file.truncate()
        return self._file.getvalue()''',
     '''        self._file.seek(0)
        self._file.truncate()
        self._p.clear_memo()
        self._p.dump(classmeta)
        self._p.dump(state)
        return self._file.getvalue()''')
twin('C14', 'newargs-getattr-none-form', SERPY, 'ObjectWriter.persistent_id',
     "        if hasattr(klass, '__getnewargs__'):",
     "        if getattr(klass, '__getnewargs__', None) is not None:")
breaker('C14', 'newargs-vars-membership', 'C14.R7', SERPY,
        'ObjectWriter.persistent_id',
        "        if hasattr(klass, '__getnewargs__'):",
        "        if '__getnewargs__' in vars(klass):")
breaker('C17', 'iter-backptr-unvalidated-header', 'C17.R6', FSPY,
        'TransactionRecordIterator.__next__',
        'prev_txn = self.getTxnFromData(h.oid, h.back)',
        'prev_txn = self._read_data_header(h.back).tid')
twin('C17', 'recover-len-test-negated-form', RECPY, 'read_txn_header',
     'if tl < (23 + ul + dl + el):', 'if not tl >= (23 + ul + dl + el):')
breaker('C17', 'fileiterator-empty-txn-refused', 'C17.R7', FSPY,
        'FileIterator.__next__',
        'if h.tlen < h.headerlen():', 'if h.tlen <= h.headerlen():')
breaker('C17', 'checktxn-empty-txn-refused', 'C17.R7', FMTPY,
        'FileStorageFormatter.checkTxn',
        'if th.tlen < th.headerlen():', 'if not th.tlen > th.headerlen():')
twin('C17', 'copy-blob-test-in-local', BLOBPY, 'copyTransactionsFromTo',
     '''                if is_blob_record(record.data):
                    try:''',
     '''                isblob = is_blob_record(record.data)
                if isblob:
                    try:''')
twin('C17', 'copy-blob-data-and-test', BLOBPY, 'copyTransactionsFromTo',
     '''                if is_blob_record(record.data):
                    try:''',
     '''                if record.data and is_blob_record(record.data):
                    try:''')
breaker('C17', 'copy-blob-skip-packed', 'C17.R8', BLOBPY,
        'copyTransactionsFromTo',
        '''                if is_blob_record(record.data):
                    try:''',
        '''                if trans.status != 'p' and is_blob_record(record.data):
                    try:''')
twin('C18', 'nochange-sum-operands-swapped', RZPY, 'do_backup',
     'if srcsz == reposz and srcsum == reposum:',
     'if reposum == srcsum and reposz == srcsz:')
breaker('C18', 'nochange-size-only', 'C18.R6', RZPY, 'do_backup',
        'if srcsz == reposz and srcsum == reposum:',
        'if srcsz == reposz:')
breaker('C18', 'copyfile-no-length-check', 'C18.R2', RZPY, 'copyfile',
        '''    ndone = dofile(func, ifp, n)
    assert ndone == n
''', '''    ndone = dofile(func, ifp, n)
''')
twin('C18', 'copyfile-length-check-raise', RZPY, 'copyfile',
     '''    assert ndone == n
''', '''    if ndone != n:
        raise OSError('short read from %s' % options.file)
''')
breaker('C17', 'record-iterator-stops-at-bad-record', 'C17.R9', FSPY,
        'TransactionRecordIterator.__next__',
        'raise CorruptedDataError(h.oid, None, pos)', 'break')
breaker('C17', 'read-index-skips-bad-record', 'C17.R9', FSPY, 'read_index',
        '''                panic("%s data record exceeds transaction record at %s",
                      name, pos)''',
        '''                logger.warning("%s data record exceeds transaction record "
                               "at %s", name, pos)
                break''')
twin('C18', 'backup-locals-renamed', RZPY, 'do_backup',
     '''        srcsum_backedup = checksum(srcfp, reposz)
        srcfp.close()
        log('current state   : %s bytes, md5: %s', srcsz, srcsum)
        log('backed up state : %s bytes, md5: %s', reposz, srcsum_backedup)
        # Has nothing changed?
        if srcsz == reposz and srcsum == reposum:''',
     '''        prefix_digest = srcsum_backedup = checksum(srcfp, reposz)
        srcfp.close()
        whole_digest = srcsum
        if srcsz == reposz and whole_digest == reposum:''')

# ------------------------------------------------- rules added in seeded round 3
twin('C04', 'undo-write-otloc-via-local', FSPY, 'FileStorage._txn_undo_write',
     '''        otloc = self._pos
        here = self._pos + self._tfile.tell() + self._thl''',
     '''        committed_end = self._pos
        otloc = committed_end
        here = committed_end + self._tfile.tell() + self._thl''')
breaker('C04', 'undo-write-otloc-plus-header', 'C04.R7', FSPY,
        'FileStorage._txn_undo_write',
        '''        otloc = self._pos
        here = self._pos + self._tfile.tell() + self._thl''',
        '''        here = self._pos + self._tfile.tell() + self._thl
        otloc = here - self._thl''')
twin('C04', 'fs-finish-tid-read-first', FSPY, 'FileStorage.tpc_finish',
     '''                try:
                    tid = self._tid
                    if f is not None:''',
     '''                tid = self._tid
                try:
                    if f is not None:''')
breaker('C04', 'bs-finish-tid-after-both-locks', 'C04.R8', BSPY,
        'BaseStorage.tpc_finish',
        '''                self._commit_lock.release()
            return self._tid''',
        '''                self._commit_lock.release()
        return self._tid''')
breaker('C02', 'blob-invalidate-changed-only', 'C02.R10', BLOBPY,
        'Blob._p_invalidate',
        '''        if self._p_changed is None:
            return''',
        '''        if not self._p_changed:
            return''')
twin('C02', 'blob-invalidate-ghost-test-flipped', BLOBPY, 'Blob._p_invalidate',
     '''        if self._p_changed is None:
            return
        for ref in (self.readers or []) + (self.writers or []):''',
     '''        if None is self._p_changed:
            return None
        for ref in (self.readers or []) + (self.writers or []):''')
breaker('C03', 'checkcurrent-none-means-ok', 'C03.R9', BSPY,
        'checkCurrentSerialInTransaction',
        '''    committed_tid = self.getTid(oid)
    if committed_tid != serial:''',
        '''    committed_tid = self.getTid(oid)
    if committed_tid is None:
        return
    if committed_tid != serial:''')
twin('C03', 'checkcurrent-equal-form', BSPY, 'checkCurrentSerialInTransaction',
     '''    if committed_tid != serial:
        raise POSException.ReadConflictError(
            oid=oid, serials=(committed_tid, serial))''',
     '''    if serial == committed_tid:
        return
    raise POSException.ReadConflictError(
        oid=oid, serials=(committed_tid, serial))''')
breaker('C06', 'undo-compares-undone-with-pre', 'C06.R7', FSPY,
        'FileStorage._transactionalUndoRecord',
        'current_data = self._loadBack_impl(oid, cdataptr)[0]',
        'current_data = self._loadBack_impl(oid, pre)[0]')
twin('C06', 'undo-current-data-operands-swapped', FSPY,
     'FileStorage._transactionalUndoRecord',
     'if data_to_be_undone != current_data:',
     'if not current_data == data_to_be_undone:')
breaker('C05', 'pool-flush-empty-before-write-lock', 'C05.R2', FSPY,
        'FilePool.flush',
        '''        with self.write_lock():
            self.empty()''',
        '''        self.empty()
        with self.write_lock():
            pass''')
breaker('C05', 'undo-dm-begin-before-storage-set', 'C05.R5', DBPY,
        'TransactionalUndo.tpc_begin',
        '''        transaction.set_data(self, tdata)
''', '''        transaction.set_data(None, tdata)
        self._storage.tpc_begin(tdata)
''')
breaker('C08', 'fs-pack-refusal-inside-try', 'C08.R3', BLOBPY,
        'BlobStorage.pack',
        '''        finally:
            with self._lock:
                self._blobs_pack_is_in_progress = False''',
        '''        finally:
            self._blobs_pack_is_in_progress = False''')
breaker('C08', 'loadbefore-lookup-outside-pool', 'C08.R8', FSPY,
        'FileStorage.loadBefore',
        '''        with self._files.get() as _file:
            pos = self._lookup_pos(oid)''',
        '''        pos = self._lookup_pos(oid)
        with self._files.get() as _file:''')
twin('C08', 'load-lookup-via-helper-local', FSPY, 'FileStorage.load',
     '''        with self._files.get() as _file:
            pos = self._lookup_pos(oid)
            h = self._read_data_header(pos, oid, _file)''',
     '''        with self._files.get() as _file:
            where = self._lookup_pos(oid)
            pos = where
            h = self._read_data_header(pos, oid, _file)''')
breaker('C11', 'conn-vote-cleanup-on-error', 'C11.R8', CONNPY,
        'Connection.tpc_finish',
        '''        serial = self._storage.tpc_finish(transaction)
        assert type(serial) is bytes, repr(serial)''',
        '''        try:
            serial = self._storage.tpc_finish(transaction)
        except BaseException:
            self._creating.clear()
            raise
        assert type(serial) is bytes, repr(serial)''')
twin('C11', 'conn-finish-logs-and-reraises', CONNPY, 'Connection.tpc_finish',
     '''        serial = self._storage.tpc_finish(transaction)
        assert type(serial) is bytes, repr(serial)''',
     '''        try:
            serial = self._storage.tpc_finish(transaction)
        except Exception:
            self._log.error("tpc_finish failed")
            raise
        assert type(serial) is bytes, repr(serial)''')
breaker('C12', 'blob-open-r-from-db-storage', 'C12.R10', BLOBPY, 'Blob.open',
        'with open(self._p_blob_committed, \'rb\') as fp:',
        'with self._p_jar._db._storage.openCommittedBlobFile(\n'
        '                                self._p_oid, self._p_serial) as fp:')
breaker('C13', 'undo-blob-copy-only-first', 'C13.R10', FSPY,
        'FileStorage._txn_undo_write',
        'if self.is_blob_record(up):',
        'if self.is_blob_record(up) and h.oid not in tindex:')
twin('C13', 'undo-blob-test-in-local', FSPY, 'FileStorage._txn_undo_write',
     'if self.is_blob_record(up):',
     'if up and self.is_blob_record(up):')
breaker('C13', 'pack-blob-check-skips-backpointers', 'C13.R11', PACKPY,
        'FileStoragePacker.copyDataRecords',
        '                if self.pack_blobs:',
        '                if self.pack_blobs and not h.back:')
breaker('C13', 'commit-savepoint-blob-from-cache', 'C13.R12', CONNPY,
        'Connection._commit_savepoint',
        'if isinstance(self._reader.getGhost(data), Blob):',
        'if isinstance(self._cache.get(oid), Blob):')
twin('C13', 'commit-savepoint-ghost-in-local', CONNPY,
     'Connection._commit_savepoint',
     'if isinstance(self._reader.getGhost(data), Blob):',
     '''ghost = self._reader.getGhost(data)
                if isinstance(ghost, Blob):''')
breaker('C09', 'index-tid-not-compared', 'C09.R7', FSPY,
        'FileStorage._restore_index',
        '''        saved_tid = info.get('tid')
        if saved_tid is not None and saved_tid != tid:''',
        '''        saved_tid = None
        if saved_tid is not None and saved_tid != tid:''')
twin('C09', 'index-tid-subscript-form', FSPY, 'FileStorage._restore_index',
     "        saved_tid = info.get('tid')",
     "        saved_tid = info['tid'] if 'tid' in info else None")
breaker('C08', 'blob-sweep-ignores-cutoff', 'C08.R9', BLOBPY,
        'BlobStorage._blob_sweep_files',
        'if serial is not None and serial > cutoff:',
        'if serial is None:')
twin('C08', 'blob-sweep-cutoff-flipped', BLOBPY,
     'BlobStorage._blob_sweep_files',
     'if serial is not None and serial > cutoff:',
     'if serial is not None and cutoff < serial:')
breaker('C19', 'minkey-boundary-guard-removed', 'C19.R6', FSIPY,
        'fsIndex.minKey',
        '''                if smallest_prefix == b'\\xff' * 6:
                    raise  # there is no larger prefix (it would wrap)
''', '')
twin('C19', 'maxkey-boundary-guard-not-equal-form', FSIPY, 'fsIndex.maxKey',
     '''                if biggest_prefix == b'\\0' * 6:
                    raise  # there is no smaller prefix
                next_prefix = prefix_minus_one(biggest_prefix)''',
     '''                if biggest_prefix != b'\\0' * 6:
                    next_prefix = prefix_minus_one(biggest_prefix)
                else:
                    raise''')

breaker('C07', 'gc-unreachable-backpointer-in-one-slot-table', 'C07.R2', PACKPY,
        'GC.findReachableFromFuture',
        '''                    L = self.reach_ex.setdefault(dh.oid, [])
                    if dh.back not in L:
                        L.append(dh.back)
                        extra_roots.append(dh.back)''',
        '''                    if dh.oid not in self.reachable:
                        self.reachable[dh.oid] = dh.back
                        continue
                    L = self.reach_ex.setdefault(dh.oid, [])
                    if dh.back not in L:
                        L.append(dh.back)
                        extra_roots.append(dh.back)''')

breaker('C16', 'ds-begin-ignores-base-tid', 'C16.R10', DSPY,
        'DemoStorage.tpc_begin',
        '''                last = self.base.lastTransaction()
                if last > self.changes.lastTransaction():
                    k.pop('tid', None)
                    a = (ZODB.utils.newTid(last),) + a[1:]''',
        '''                pass''')
breaker('C16', 'ds-begin-only-without-arguments', 'C16.R10', DSPY,
        'DemoStorage.tpc_begin',
        '''            if (a[0] if a else k.get('tid')) is None:''',
        '''            if not a and 'tid' not in k:''')
twin('C16', 'ds-begin-id-in-local', DSPY, 'DemoStorage.tpc_begin',
     '''            if (a[0] if a else k.get('tid')) is None:''',
     '''            given = a[0] if a else k.get('tid')
            if not given is not None:''')

# F50 / F51 (stale data-file handles around a pack)
breaker('C08', 'pool-checkin-outside-condition', 'C02.R8', FSPY,
        'FilePool.get',
        '''            with self._cond:
                self._out.remove(f)
                self._files.append(f)
                if self.writers and not self._out:
                    self._cond.notify_all()''',
        '''            self._out.remove(f)
            self._files.append(f)
            if not self._out:
                with self._cond:
                    if self.writers and not self._out:
                        self._cond.notify_all()''')

breaker('C08', 'lastinvalidations-handle-before-lock', 'C02.R7', FSPY,
        'FileStorage.lastInvalidations',
        '''        with self._lock:
            # (a pack replaces self._file: look at it under the lock only)
            file = self._file
            seek = file.seek
            read = file.read
            pos = self._pos''',
        '''        file = self._file
        seek = file.seek
        read = file.read
        with self._lock:
            pos = self._pos''')

breaker('C08', 'undolog-no-recheck-after-handover', 'C02.R7', FSPY,
        'FileStorage.undoLog',
        '''                if self._pack_is_in_progress or us.file is not self._file:''',
        '''                if self._pack_is_in_progress:''')

twin('C08', 'undolog-recheck-split', FSPY, 'FileStorage.undoLog',
     '''                if self._pack_is_in_progress or us.file is not self._file:
                    # A pack started, or replaced the file we are reading.
                    raise UndoError(
                        'Undo is currently disabled for database '
                        'maintenance.<p>')''',
     '''                if self._pack_is_in_progress:
                    raise UndoError(
                        'Undo is currently disabled for database '
                        'maintenance.<p>')
                if self._file is not us.file:
                    raise UndoError(
                        'Undo is currently disabled for database '
                        'maintenance.<p>')''')

# ---- round 5 rules ---------------------------------------------------------
breaker('C17', 'copy-skips-dataless-records', 'C17.R13', BSPY, 'copy',
        '''                oid = r.oid
                if verbose:''',
        '''                oid = r.oid
                if r.data is None:
                    continue
                if verbose:''')
twin('C17', 'copy-verbose-branch-for-dataless', BSPY, 'copy',
     '''                oid = r.oid
                if verbose:
                    # (the record of an un-creation has no data)
                    print(oid_repr(oid), r.version, len(r.data or b''))''',
     '''                oid = r.oid
                if verbose and r.data is None:
                    print(oid_repr(oid), r.version, 'no data')
                elif verbose:
                    print(oid_repr(oid), r.version, len(r.data))''')
breaker('C17', 'recover-skips-records', 'C17.R13', RECPY, 'recover',
        '''                ofs.restore(r.oid, r.tid, r.data, '', r.data_txn,
                            txn)
                nrec += 1''',
        '''                if r.data is not None or r.data_txn:
                    ofs.restore(r.oid, r.tid, r.data, '', r.data_txn,
                                txn)
                nrec += 1''')

breaker('C01', 'cp-clamp-hoisted', 'C01.R8', UTILPY, 'cp',
        '''    while length > 0:
        if n > length:
            n = length
        data = read(n)''',
        '''    if n > length:
        n = length
    while length > 0:
        data = read(n)''')
breaker('C01', 'cp-clamp-dropped', 'C01.R8', UTILPY, 'cp',
        '''        if n > length:
            n = length
        data = read(n)''',
        '''        data = read(n)''')
twin('C01', 'cp-clamp-min', UTILPY, 'cp',
     '''        if n > length:
            n = length
        data = read(n)''',
     '''        n = min(n, length)
        data = read(n)''')
twin('C01', 'cp-clamp-inline', UTILPY, 'cp',
     '''        if n > length:
            n = length
        data = read(n)''',
     '''        data = read(min(bufsize, length))''')

breaker('C05', 'undo-abort-releases-instance', 'C05.R7', DBPY,
        'TransactionalUndo.abort',
        '''        pass''',
        '''        self.close()''')
breaker('C05', 'undo-vote-failure-releases-instance', 'C05.R7', DBPY,
        'TransactionalUndo.tpc_vote',
        '''        transaction = transaction.data(self)
        self._storage.tpc_vote(transaction)''',
        '''        transaction = transaction.data(self)
        try:
            self._storage.tpc_vote(transaction)
        except BaseException:
            self.close()
            raise''')
twin('C05', 'undo-tpc-abort-guarded', DBPY, 'TransactionalUndo.tpc_abort',
     '''            transaction = transaction.data(self)
            self._storage.tpc_abort(transaction)''',
     '''            if self._storage is not None:
                transaction = transaction.data(self)
                self._storage.tpc_abort(transaction)''')

breaker('C09', 'open-index-bypasses-initindex', 'C09.R9', FSPY,
        'FileStorage.__init__',
        '''            index, start, ltid = r

            self._initIndex(index, tindex)''',
        '''            index, start, ltid = r

            self._index = index''')
breaker('C09', 'pack-installs-index-directly', 'C09.R9', FSPY,
        'FileStorage.pack',
        '''                    self._initIndex(index, self._tindex)''',
        '''                    self._index = index''')
twin('C09', 'initindex-reordered', FSPY, 'FileStorage._initIndex',
     '''        self._index = index
        self._tindex = tindex
        self._index_get = index.get''',
     '''        self._index_get = index.get
        self._index = index
        self._tindex = tindex''')

breaker('C12', 'blob-open-takes-committed-file', 'C13.R4', BLOBPY,
        'Blob.open',
        '''                    result = BlobFile(self._p_blob_uncommitted, mode, self)
                    if self._p_blob_committed:
                        with open(self._p_blob_committed, 'rb') as fp:
                            utils.cp(fp, result)''',
        '''                    committed = self._p_blob_committed
                    if committed and committed.endswith(SAVEPOINT_SUFFIX):
                        os.replace(committed, self._p_blob_uncommitted)
                        committed = None
                    result = BlobFile(self._p_blob_uncommitted, mode, self)
                    if committed:
                        with open(committed, 'rb') as fp:
                            utils.cp(fp, result)''')

breaker('C12', 'tmpstore-store-without-seek', 'C12.R6', CONNPY,
        'TmpStore.store',
        '''        self._file.seek(self.position)
        lenght = len(data)''',
        '''        lenght = len(data)''')
twin('C12', 'tmpstore-store-single-write', CONNPY, 'TmpStore.store',
     '''        self._file.write(header)
        self._file.write(data)''',
     '''        self._file.write(header + data)''')
breaker('C12', 'tmpstore-removes-superseded-blob', 'C12.R6', CONNPY,
        'TmpStore.storeBlob',
        '''        serial = self.store(oid, serial, data, '', transaction)
''',
        '''        previous = oid in self.index and self._getCleanFilename(
            oid, serial or z64)
        serial = self.store(oid, serial, data, '', transaction)
        if previous and os.path.exists(previous):
            os.remove(previous)
''')

breaker('C13', 'same-bytes-end-before-compare', 'C13.R14', FSPY,
        'FileStorage._blob_same_bytes',
        '''                        if d1 != f2.read(1 << 16):
                            return False
                        if not d1:
                            return True''',
        '''                        if not d1:
                            return True
                        if d1 != f2.read(1 << 16):
                            return False''')
twin('C13', 'same-bytes-two-locals', FSPY, 'FileStorage._blob_same_bytes',
     '''                        d1 = f1.read(1 << 16)
                        if d1 != f2.read(1 << 16):
                            return False''',
     '''                        d1 = f1.read(1 << 16)
                        d2 = f2.read(1 << 16)
                        if d1 != d2:
                            return False''')

breaker('C06', 'undo-skips-check-for-bare-pointer', 'C06.R9', FSPY,
        'FileStorage._transactionalUndoRecord',
        '''            if cdataptr != pos:
''',
        '''            if cdataptr != pos and (current_data or not tpos):
''')
twin('C06', 'undo-pointer-test-negated', FSPY,
     'FileStorage._transactionalUndoRecord',
     '''            if cdataptr != pos:
''',
     '''            if not (cdataptr == pos):
''')

breaker('C02', 'abort-flushes-pool-before-truncate', 'C05.R2', FSPY,
        'FileStorage._abort',
        '''            self._file.truncate(self._pos)
            self._files.flush()''',
        '''            self._files.flush()
            self._file.truncate(self._pos)''')

# ---- F52 .. F56 -------------------------------------------------------------
breaker('C12', 'store-objects-pops-unconditionally', 'C12.R11', CONNPY,
        'Connection._store_objects_of',
        '''                    assert serial is not None  # See _uncommitted
                    if new:''',
        '''                    assert serial is not None  # See _uncommitted
                    self._modified.pop()
                    if new:''')
twin('C12', 'store-objects-pop-flag-renamed', CONNPY,
     'Connection._store_objects_of',
     '''                    if new:
                        # A new object always gets a record.  (A blob
                        # that was new in an aborted transaction and whose
                        # data a savepoint had taken: the data went with
                        # that transaction.)
                        raise ZODB.interfaces.BlobError(
                            "A new blob has lost its data: %s" %
                            oid_repr(oid))
                    self._modified.pop()  # not modified
                    continue''',
     '''                    if not new:
                        self._modified.pop()  # not modified
                        continue
                    raise ZODB.interfaces.BlobError(
                        "A new blob has lost its data: %s" %
                        oid_repr(oid))''')

breaker('C09', 'time-travel-open-takes-index', 'C09.R10', FSPY,
        'FileStorage.__init__',
        '''        if r is not None and r[2] >= stop:''',
        '''        if r is not None and r[2] is None:''')

breaker('C06', 'failed-undo-keeps-buffer', 'C06.R10', FSPY, 'FileStorage.undo',
        '''                self._tfile.seek(buffered)
                raise''',
        '''                raise''')
twin('C06', 'failed-undo-rewind-in-finally', FSPY, 'FileStorage.undo',
     '''            try:
                tindex = self._txn_undo_write(tpos)
            except BaseException:
                # A failed undo changes nothing: forget the records it
                # has written to the transaction buffer so far.
                self._tfile.seek(buffered)
                raise''',
     '''            ok = False
            try:
                tindex = self._txn_undo_write(tpos)
                ok = True
            finally:
                if not ok:
                    self._tfile.seek(buffered)''')

breaker('C07', 'pack-index-counts-undone-records', 'C07.R10', PACKPY,
        'GC.buildPackIndex',
        '''                if th.status == 'u':''',
        '''                if th.status == 'c':''')
breaker('C07', 'copyone-indexes-undone-records', 'C07.R10', PACKPY,
        'FileStoragePacker.copyOne',
        '''        if th.status != 'u':
            # (the records of an undone transaction are not current)
            self.index.update(self.tindex)''',
        '''        self.index.update(self.tindex)''')

breaker('C13', 'wrapper-undo-without-byte-check', 'C13.R15', BLOBPY,
        'BlobStorage.undo',
        '''                if self._blob_changed_since(oid, tid):''',
        '''                if False:''')
breaker('C13', 'wrapper-changed-since-end-before-compare', 'C13.R14', BLOBPY,
        'BlobStorage._blob_changed_since',
        '''                        if d1 != f2.read(1 << 16):
                            return True
                        if not d1:
                            return False''',
        '''                        if not d1:
                            return False
                        if d1 != f2.read(1 << 16):
                            return True''')

# ---- F57 / F58 ---------------------------------------------------------------
breaker('C03', 'readcurrent-ghost-not-loaded', 'C03.R10', CONNPY,
        'Connection.readCurrent',
        '''        if ob._p_changed is None:
            # A ghost has no serial yet: load it, so that there is a
            # revision to depend on.
            ob._p_activate()
''',
        '''''')
twin('C03', 'readcurrent-activate-always', CONNPY, 'Connection.readCurrent',
     '''        if ob._p_changed is None:
            # A ghost has no serial yet: load it, so that there is a
            # revision to depend on.
            ob._p_activate()
''',
     '''        ob._p_activate()
''')


# ---- F59 -------------------------------------------------------------------
breaker('C17', 'copy-failure-leaves-transaction-open', 'C17.R14', BSPY, 'copy',
        '''            dest.tpc_abort(transaction)
            raise''',
        '''            raise''')
breaker('C17', 'blobcopy-abort-only-for-exception', 'C17.R14', BLOBPY,
        'copyTransactionsFromTo',
        '''        except BaseException:
            # Don't leave the destination in the middle of a transaction
            # (and holding its commit lock).
            destination.tpc_abort(trans)
            raise''',
        '''        except POSKeyError:
            destination.tpc_abort(trans)
            raise''')

# ---- F61 -------------------------------------------------------------------
breaker('C18', 'verify-ignores-chain-membership', 'C18.R10', RZPY, 'do_verify',
        '''    for filename in repofiles:
        if filename not in recorded:''',
        '''    for filename in repofiles[:1]:
        if filename not in recorded:''')
twin('C18', 'verify-chain-membership-as-set', RZPY, 'do_verify',
     '''    for filename in repofiles:
        if filename not in recorded:''',
     '''    for filename in sorted(set(repofiles) - recorded):
        if True:''')

# ---- round 6 rules, F62, F63 ------------------------------------------------
SERPY_ = 'ZODB/serialize.py'
breaker('C14', 'weakref-remembered-oid-unchecked', 'C14.R11', SERPY_,
        'ObjectWriter.persistent_id',
        '''                    if target is not None and target._p_oid != oid:''',
        '''                    if target is not None and False:''')
breaker('C17', 'fs-iterator-ignores-storage-stop', 'C17.R16', FSPY,
        'FileStorage.iterator',
        '''            if stop is None or stop > last:
                stop = last''',
        '''            pass''')
breaker('C16', 'ds-loadbefore-shortcut-at-last', 'C16.R12', DSPY,
        'DemoStorage.loadBefore',
        '''                    if tid == maxtid:''',
        '''                    if tid >= self.changes.lastTransaction():''')
twin('C16', 'ds-loadbefore-shortcut-flipped', DSPY, 'DemoStorage.loadBefore',
     '''                    if tid == maxtid:''',
     '''                    if maxtid == tid:''')
breaker('C16', 'ms-loadbefore-raises-for-early-bound', 'C16.R11', MSPY,
        'MappingStorage.loadBefore',
        '''            if tids_before:
                tids_after = tid_data.keys(tid, None)
                tid = tids_before[-1]
                return (tid_data[tid], tid,
                        (tids_after and tids_after[0] or None)
                        )
        else:''',
        '''            if tids_before:
                tids_after = tid_data.keys(tid, None)
                tid = tids_before[-1]
                return (tid_data[tid], tid,
                        (tids_after and tids_after[0] or None)
                        )
            raise ZODB.POSException.POSKeyError(oid)
        else:''')
breaker('C06', 'undodatainfo-reports-committed-pos', 'C06.R11', FSPY,
        'FileStorage._undoDataInfo',
        '''            itpos = tpos - self._pos - self._thl
            pos = tpos
            tpos = self._tfile.tell()''',
        '''            itpos = tpos - self._pos - self._thl
            tpos = self._tfile.tell()''')
twin('C06', 'undodatainfo-locals-renamed', FSPY, 'FileStorage._undoDataInfo',
     '''            itpos = tpos - self._pos - self._thl
            pos = tpos
            tpos = self._tfile.tell()
            h = self._tfmt._read_data_header(itpos, oid)''',
     '''            pos = tpos
            tend = self._tfile.tell()
            h = self._tfmt._read_data_header(
                tpos - self._pos - self._thl, oid)
            tpos = tend''')
breaker('C17', 'scan-backward-at-older-transaction', 'C17.R15', FSPY,
        'FileIterator._scan_backward',
        '''                if h.tid == start:
                    self._pos = pos
                else:
                    self._pos = pos + tlen + 8''',
        '''                self._pos = pos''')
breaker('C17', 'scan-forward-strict', 'C17.R15', FSPY,
        'FileIterator._scan_forward',
        '''            if h.tid >= start:
                self._pos = pos
                return

            pos += h.tlen + 8''',
        '''            if h.tid > start:
                self._pos = pos - 0
                return
            if h.tid == start:
                self._pos = pos + h.tlen + 8
                return

            pos += h.tlen + 8''')
twin('C17', 'scan-backward-strict-first', FSPY, 'FileIterator._scan_backward',
     '''                if h.tid == start:
                    self._pos = pos
                else:
                    self._pos = pos + tlen + 8''',
     '''                if h.tid < start:
                    self._pos = pos + tlen + 8
                else:
                    self._pos = pos''')
breaker('C12', 'rollback-keeps-added-objects', 'C12.R12', CONNPY,
        'Connection._rollback_savepoint',
        '''        self._invalidate_creating(oid for oid in src.creating
                                  if oid not in state[2])''',
        '''        self._invalidate_creating(oid for oid, implicit
                                  in src.creating.items()
                                  if implicit and oid not in state[2])''')
breaker('C14', 'multi-oid-probes-own-cache', 'C14.R9', SERPY_,
        'ObjectReader.load_multi_oid',
        '''        conn = self._conn.get_connection(database_name)
        # TODO, make connection _cache attr public
        reader = ObjectReader(conn, conn._cache, self._factory)
        return reader.load_oid(oid)''',
        '''        obj = self._cache.get(oid, None)
        if obj is not None:
            return obj
        return self._conn.get_connection(database_name).get(oid)''')
breaker('C07', 'undoing-sweep-removes-dir-of-gone-object', 'C13.R13', BLOBPY,
        'BlobStorage._packUndoing',
        '''            files, newer = self._blob_sweep_files(oid_path, cutoff)
            for filename in files:''',
        '''            files, newer = self._blob_sweep_files(oid_path, cutoff)
            if not newer:
                try:
                    utils.load_current(self, oid)
                except POSKeyError:
                    remove_committed_dir(oid_path)
                    continue
            for filename in files:''')

# ---- F64 -------------------------------------------------------------------
breaker('C17', 'iterator-raises-for-short-header', 'C17.R17', FSPY,
        'FileIterator.__next__',
        '''                if len(err.buf) < TRANS_HDR_LEN:''',
        '''                if len(err.buf) < 0:''')
twin('C17', 'iterator-short-header-inverted', FSPY, 'FileIterator.__next__',
     '''                if len(err.buf) < TRANS_HDR_LEN:
                    # The file ends in the middle of a transaction
                    # header: an unfinished transaction, as when it ends
                    # in the middle of the transaction's data (below).
                    logger.warning("%s truncated at %s",
                                   self._file.name, pos)
                    break
                raise''',
     '''                if len(err.buf) >= TRANS_HDR_LEN:
                    raise
                logger.warning("%s truncated at %s",
                               self._file.name, pos)
                break''')

# ---- F65 -------------------------------------------------------------------
breaker('C16', 'ds-loadblob-asks-blobless-changes', 'C16.R13', DSPY,
        'DemoStorage.loadBlob',
        '''            if not self._changes_may_hold_blobs():
                raise ZODB.POSException.POSKeyError(oid, serial)
            return self.changes.loadBlob(oid, serial)''',
        '''            return self.changes.loadBlob(oid, serial)''')
breaker('C10', 'ds-loadserial-from-loadbefore', 'C16.R5', DSPY,
        'DemoStorage.loadSerial',
        '''            return self.base.loadSerial(oid, serial)''',
        '''            r = self.base.loadBefore(
                oid, ZODB.utils.p64(ZODB.utils.u64(serial) + 1))
            if r is None:
                raise ZODB.POSException.POSKeyError(oid, serial)
            return r[0]''')
twin('C10', 'ds-loadserial-from-loadbefore-checked', DSPY,
     'DemoStorage.loadSerial',
     '''            return self.base.loadSerial(oid, serial)''',
     '''            r = self.base.loadBefore(
                oid, ZODB.utils.p64(ZODB.utils.u64(serial) + 1))
            if r is None or r[1] != serial:
                raise ZODB.POSException.POSKeyError(oid, serial)
            return r[0]''')

# ---- F66 / F67 ---------------------------------------------------------------
breaker('C17', 'copy-begin-outside-abort-block', 'C17.R14', BSPY, 'copy',
        '''        try:
            # (tpc_begin can fail with the commit lock already taken)
            dest.tpc_begin(transaction, tid, transaction.status)
            for r in transaction:''',
        '''        dest.tpc_begin(transaction, tid, transaction.status)
        try:
            for r in transaction:''')
breaker('C11', 'abort-keeps-pending-import', 'C11.R10', CONNPY,
        'Connection.abort',
        '''        if self._import:
            # An import whose savepoint failed is still pending: forget it,
            # as tpc_abort does.
            self._import = None
''',
        '''''')
twin('C11', 'abort-forgets-import-unconditionally', CONNPY,
     'Connection.abort',
     '''        if self._import:
            # An import whose savepoint failed is still pending: forget it,
            # as tpc_abort does.
            self._import = None
''',
     '''        self._import = None
''')

# ---- F68 -------------------------------------------------------------------
breaker('C20', 'ds-newoid-ignores-stored-oids', 'C20.R6', DSPY,
        'DemoStorage.new_oid',
        '''                if oid not in self._issued_oids and \\
                        oid not in self._stored_oids:''',
        '''                if oid not in self._issued_oids:''')
twin('C20', 'ds-newoid-two-tests', DSPY, 'DemoStorage.new_oid',
     '''                if oid not in self._issued_oids and \\
                        oid not in self._stored_oids:''',
     '''                if oid in self._stored_oids:
                    pass
                elif oid not in self._issued_oids:''')

# ---- F71 .. F74 --------------------------------------------------------------
breaker('C11', 'tpc-abort-invalidates-before-disowning', 'C11.R11', CONNPY,
        'Connection.tpc_abort',
        '''        self._invalidate_creating()
        self._cache.invalidate(self._modified)''',
        '''        self._cache.invalidate(self._modified)
        self._invalidate_creating()''')
breaker('C11', 'abort-invalidates-created-objects', 'C11.R11', CONNPY,
        'Connection._abort',
        '''            elif oid in self._creating or (
                    self._savepoint_storage is not None and
                    oid in self._savepoint_storage.creating):''',
        '''            elif False:''')
breaker('C11', 'close-checks-own-join-state-only', 'C11.R5', CONNPY,
        'Connection.close',
        '''        if not self._needs_to_join or (primary and any(
                not connection._needs_to_join
                for connection in self.connections.values())):''',
        '''        if not self._needs_to_join:''')
breaker('C06', 'undolog-entry-updated-with-extension', 'C06.R12', FSPY,
        'UndoSearch._readnext',
        '''        for k in e:
            d.setdefault(k, e[k])''',
        '''        d.update(e)''')
breaker('C08', 'iterator-opens-file-without-lock', 'C08.R11', FSPY,
        'FileStorage.iterator',
        '''        with self._lock:
            # (a pack renames the data file away and the packed file into
            # place under this lock: don't open the name in between)
            return FileIterator(self._file_name, start, stop)''',
        '''        return FileIterator(self._file_name, start, stop)''')

# ---- F75 .. F77, round 8 rules ----------------------------------------------
breaker('C06', 'txn-find-stops-at-39', 'C06.R13', FSPY, 'FileStorage._txn_find',
        '''        while pos > 4:''', '''        while pos > 39:''')
breaker('C14', 'weakref-foreign-db-unchecked', 'C14.R13', 'ZODB/serialize.py',
        'ObjectWriter.persistent_id',
        '''                    if self._jar.db().databases.get(
                            obj.database_name) is not otherdb:''',
        '''                    if False:''')
breaker('C04', 'begin-explicit-tid-not-basis', 'C04.R11', BSPY,
        'BaseStorage.tpc_begin',
        '''                ts = TimeStamp(tid)
                if self._ts is None or ts > self._ts:
                    self._ts = ts
                self._tid = tid''',
        '''                self._tid = tid''')
breaker('C04', 'begin-explicit-tid-moves-the-basis-back', 'C04.R11', BSPY,
        'BaseStorage.tpc_begin',
        '''                ts = TimeStamp(tid)
                if self._ts is None or ts > self._ts:
                    self._ts = ts
                self._tid = tid''',
        '''                self._ts = TimeStamp(tid)
                self._tid = tid''')
twin('C04', 'begin-explicit-tid-basis-guard-flipped', BSPY,
     'BaseStorage.tpc_begin',
     '''                if self._ts is None or ts > self._ts:
                    self._ts = ts''',
     '''                if not (self._ts is not None and self._ts >= ts):
                    self._ts = ts''')
breaker('C13', 'is-blob-record-cheap-test-first', 'C13.R16', BLOBPY,
        'BlobStorageMixin.is_blob_record',
        '''        if record:''',
        '''        if record and b'ZODB.blob' in record:''')
breaker('C15', 'totimestamp-local-fields', 'C15.R6', DBPY, 'toTimeStamp',
        '''    utc_struct = dt.utctimetuple()
    # if this is a leapsecond, this will probably fail.  That may be a good
    # thing: leapseconds are not really accounted for with serials.
    args = utc_struct[:5] + (utc_struct[5] + dt.microsecond / 1000000.0,)
    return TimeStamp(*args)''',
        '''    return TimeStamp(dt.year, dt.month, dt.day, dt.hour, dt.minute,
                     dt.second + dt.microsecond / 1000000.0)''')
breaker('C07', 'fs-pack-gc-or-default', 'C07.R11', FSPY, 'FileStorage.pack',
        '''        if gc is None:
            gc = self._pack_gc''',
        '''        gc = gc or self._pack_gc''')
breaker('C10', 'resolved-record-dumps-class-only', 'C10.R8', CRPY,
        'tryToResolveConflict',
        '''        pickler.dump(meta)''', '''        pickler.dump(klass)''')
breaker('C10', 'ds-loadserial-guarded-by-pack', 'C16.R5', DSPY,
        'DemoStorage.loadSerial',
        '''        except ZODB.POSException.POSKeyError:
            return self.base.loadSerial(oid, serial)''',
        '''        except ZODB.POSException.POSKeyError:
            if serial <= self._packed_to:
                raise
            return self.base.loadSerial(oid, serial)''')

breaker('C19', 'maxkey-recursion-smallest-suffix', 'C19.R8', FSIPY,
        'fsIndex.maxKey',
        '''                biggest_prefix = self._data.maxKey(next_prefix)
                tree = self._data[biggest_prefix]
                assert tree
                biggest_suffix = tree.maxKey()
''', '''                return self.maxKey(next_prefix + b'\\x00\\x00')
''')
twin('C19', 'maxkey-recursion-largest-suffix', FSIPY, 'fsIndex.maxKey',
     '''                biggest_prefix = self._data.maxKey(next_prefix)
                tree = self._data[biggest_prefix]
                assert tree
                biggest_suffix = tree.maxKey()
''', '''                return self.maxKey(next_prefix + b'\\xff\\xff')
''')
breaker('C19', 'update-adopts-foreign-buckets', 'C19.R7', FSIPY,
        'fsIndex.update',
        '''        for k, v in mapping.items():
            self[ensure_bytes(k)] = v
''', '''        if isinstance(mapping, fsIndex):
            data = self._data
            for prefix, tree in mapping._data.items():
                if prefix not in data:
                    data[prefix] = tree
                else:
                    data[prefix].update(tree)
            return
        for k, v in mapping.items():
            self[ensure_bytes(k)] = v
''')
twin('C19', 'update-copies-foreign-buckets', FSIPY, 'fsIndex.update',
     '''        for k, v in mapping.items():
            self[ensure_bytes(k)] = v
''', '''        if isinstance(mapping, fsIndex):
            data = self._data
            for prefix, tree in mapping._data.items():
                if prefix not in data:
                    data[prefix] = fsBucket().fromString(tree.toString())
                else:
                    data[prefix].update(tree)
            return
        for k, v in mapping.items():
            self[ensure_bytes(k)] = v
''')

# ---- round 9
breaker('C06', 'undo-blob-copy-before-refusal', 'C06.R14', FSPY,
        'FileStorage._txn_undo_write',
        '''                            blobs.append((h.oid, userial))
''', '''                            tmp = mktemp(dir=self.fshelper.temp_dir)
                            with self.openCommittedBlobFile(
                                    h.oid, userial) as sfp:
                                with open(tmp, 'wb') as dfp:
                                    cp(sfp, dfp)
                            self._blob_storeblob(h.oid, self._tid, tmp)
''')
twin('C06', 'undo-blob-copies-worked-off-by-entry', FSPY,
     'FileStorage._txn_undo_write',
     '''        for oid, userial in blobs:
            tmp = mktemp(dir=self.fshelper.temp_dir)
''', '''        for entry in blobs:
            oid, userial = entry
            tmp = mktemp(dir=self.fshelper.temp_dir)
''')
breaker('C13', 'undo-blob-copies-never-worked-off', 'C13.R10', FSPY,
        'FileStorage._txn_undo_write',
        '''        if failures:
            raise MultipleUndoErrors(list(failures.items()))

        for oid, userial in blobs:
''', '''        if failures:
            raise MultipleUndoErrors(list(failures.items()))
        if len(tindex) > 1:
            return tindex

        for oid, userial in blobs:
''')
breaker('C20', 'demo-begin-empties-stored-ids-while-waiting', 'C20.R7', DSPY,
        'DemoStorage.tpc_begin',
        '''                    "Duplicate tpc_begin calls for same transaction")

        self._commit_lock.acquire()
''', '''                    "Duplicate tpc_begin calls for same transaction")
            self._stored_oids = set()

        self._commit_lock.acquire()
''')
twin('C20', 'demo-begin-empties-stored-ids-first-thing-after-acquire', DSPY,
     'DemoStorage.tpc_begin',
     '''            self._transaction = transaction
            if (a[0] if a else k.get('tid')) is None:''',
     '''            self._transaction = transaction
            self._stored_oids = set()
            if (a[0] if a else k.get('tid')) is None:''')
breaker('C09', 'packer-indexes-records-with-data-only', 'C09.R12', PACKPY,
        'FileStoragePacker.writePackedDataRecord',
        '''        self.index[h.oid] = pos
        self._tfile.write(h.asString())
        self._tfile.write(data)
        if not data:
''', '''        self._tfile.write(h.asString())
        self._tfile.write(data)
        if data:
            self.index[h.oid] = pos
        if not data:
''')
twin('C09', 'packer-indexes-after-writing', PACKPY,
     'FileStoragePacker.writePackedDataRecord',
     '''        self.index[h.oid] = pos
        self._tfile.write(h.asString())
        self._tfile.write(data)
''', '''        self._tfile.write(h.asString())
        self._tfile.write(data)
        self.index[h.oid] = pos
''')

breaker('C11', 'abort-discards-savepoint-before-disowning', 'C11.R11', CONNPY,
        'Connection.abort',
        '''        self._invalidate_creating()

        if self._savepoint_storage is not None:
            self._abort_savepoint()

        self._tpc_cleanup()
''', '''        if self._savepoint_storage is not None:
            self._abort_savepoint()

        self._invalidate_creating()
        self._tpc_cleanup()
''')
breaker('C11', 'created-ghost-disowned-empty', 'C11.R11', CONNPY,
        'Connection._invalidate_creating',
        '''                    try:
                        o._p_activate()
                    except Exception:
                        pass  # no record to read: nothing to keep
''', '''                    pass
''')
twin('C11', 'created-ghost-activation-nested-tests', CONNPY,
     'Connection._invalidate_creating',
     '''                if o._p_changed is None and not isinstance(o, Blob):
                    # A ghost: a savepoint stored the object and the cache
                    # let go of its state since.  Without a database it
                    # could never get it back: load it while the record
                    # can still be read.
                    try:
                        o._p_activate()
                    except Exception:
                        pass  # no record to read: nothing to keep
''', '''                if o._p_changed is None:
                    if not isinstance(o, Blob):
                        try:
                            o._p_activate()
                        except Exception:
                            pass
''')
breaker('C11', 'modified-list-forgotten-by-cleanup', 'C11.R12', CONNPY,
        'Connection._tpc_cleanup',
        '''        self._registered_objects = []
        self._creating.clear()
''', '''        self._registered_objects = []
        self._modified = []
        self._creating.clear()
''')
breaker('C13', 'refused-undo-removes-all-dirty-blobs', 'C13.R17', FSPY,
        'FileStorage.undo',
        '''                self._tfile.seek(buffered)
                raise
''', '''                self._tfile.seek(buffered)
                self._blob_tpc_abort()
                raise
''')
breaker('C01', 'connection-vote-skipped-when-nothing-stored', 'C01.R9', CONNPY,
        'Connection.tpc_vote',
        '''        transaction = transaction.data(self)

        try:
            s = vote(transaction)
''', '''        if not (self._modified or self._creating or self._readCurrent):
            return

        transaction = transaction.data(self)

        try:
            s = vote(transaction)
''')
twin('C01', 'connection-vote-looked-up-with-getattr', CONNPY,
     'Connection.tpc_vote',
     '''        try:
            vote = self._storage.tpc_vote
        except AttributeError:
            return
''', '''        vote = getattr(self._storage, 'tpc_vote', None)
        if vote is None:
            return
''')
breaker('C14', 'weakref-dead-oid-test-for-unowned-only', 'C14.R11', SERPY,
        'ObjectWriter.persistent_id',
        'if target is not None and target._p_oid != oid:',
        'if target is not None and target._p_oid is None:')

breaker('C08', 'packer-reopens-buffered', 'C08.R12', PACKPY,
        'FileStoragePacker.pack',
        'self._file = open(self._path, "rb", 0)',
        'self._file = open(self._path, "rb")')
twin('C08', 'packer-reopens-unbuffered-by-keyword', PACKPY,
     'FileStoragePacker.pack',
     'self._file = open(self._path, "rb", 0)',
     'self._file = open(self._path, "rb", buffering=0)')
breaker('C08', 'blob-moved-into-place-outside-the-lock', 'C08.R13', BLOBPY,
        'BlobStorageMixin._blob_storeblob',
        '''            self.dirty_oids.append((oid, serial))
            rename_or_copy_blob(blobfilename, targetname)
''', '''            self.dirty_oids.append((oid, serial))
        rename_or_copy_blob(blobfilename, targetname)
''')
breaker('C08', 'demo-pack-time-recorded-after-the-pack', 'C08.R14', DSPY,
        'DemoStorage.pack',
        '''            if packed_to > previous:
                self._packed_to = packed_to
        try:
            self.changes.pack(t, referencesf, gc=False)
''', '''            pass
        try:
            self.changes.pack(t, referencesf, gc=False)
            with self._lock:
                if packed_to > self._packed_to:
                    self._packed_to = packed_to
''')
breaker('C08', 'demo-pack-time-moves-back', 'C08.R14', DSPY,
        'DemoStorage.pack',
        '''            if packed_to > previous:
                self._packed_to = packed_to
''', '''            self._packed_to = packed_to
''')
twin('C08', 'demo-pack-time-raised-with-max', DSPY, 'DemoStorage.pack',
     '''            if packed_to > previous:
                self._packed_to = packed_to
''', '''            self._packed_to = max(self._packed_to, packed_to)
''')
twin('C08', 'demo-pack-time-guard-flipped', DSPY, 'DemoStorage.pack',
     '''            if packed_to > previous:
                self._packed_to = packed_to
''', '''            if not previous >= packed_to:
                self._packed_to = packed_to
''')
breaker('C16', 'demo-begin-holds-base-against-own-last', 'C16.R10', DSPY,
        'DemoStorage.tpc_begin',
        'if last > self.changes.lastTransaction():',
        'if last > self.lastTransaction():')
twin('C16', 'demo-begin-changes-last-in-a-local', DSPY,
     'DemoStorage.tpc_begin',
     '''                if last > self.changes.lastTransaction():''',
     '''                mine = self.changes.lastTransaction()
                if mine < last:''')

# ---- round 10
breaker('C13', 'blobwrapper-undo-skips-a-blob-it-has-a-file-for', 'C13.R18',
        BLOBPY, 'BlobStorage.undo',
        '''                self.dirty_oids.append((oid, undo_serial))
                with open(orig_fn, "rb") as orig:''',
        '''                if (oid, undo_serial) in self.dirty_oids:
                    continue
                self.dirty_oids.append((oid, undo_serial))
                with open(orig_fn, "rb") as orig:''')
breaker('C13', 'new-blob-without-data-passed-over', 'C13.R19', CONNPY,
        'Connection._store_objects_of',
        '''                    if new:
                        # A new object always gets a record.  (A blob
                        # that was new in an aborted transaction and whose
                        # data a savepoint had taken: the data went with
                        # that transaction.)
                        raise ZODB.interfaces.BlobError(
                            "A new blob has lost its data: %s" %
                            oid_repr(oid))
                    self._modified.pop()  # not modified
                    continue''',
        '''                    if not new:
                        self._modified.pop()  # not modified
                    continue''')
breaker('C18', 'find-files-compares-whole-name', 'C18.R12', RZPY,
        'find_files',
        '''        if root <= when:''', '''        if fname <= when:''')
twin('C18', 'find-files-date-on-the-left', RZPY, 'find_files',
     '''        if root <= when:''', '''        if when >= root:''')
breaker('C18', 'verifying-recover-writes-everything-listed', 'C18.R13', RZPY,
        'do_recover',
        '''            for repofile in repofiles:
                reposz, reposum = concat([repofile], outfp)
                expected_truth = truth_dict[repofile]''',
        '''            for repofile, expected_truth in truth_dict.items():
                reposz, reposum = concat([repofile], outfp)''')
breaker('C09', 'index-without-id-rejected', 'C09.R13', FSPY,
        'FileStorage._restore_index',
        '''        saved_tid = info.get('tid')
        if saved_tid is not None and saved_tid != tid:''',
        '''        if info.get('tid') != tid:''')
twin('C09', 'index-id-test-nested', FSPY, 'FileStorage._restore_index',
     '''        saved_tid = info.get('tid')
        if saved_tid is not None and saved_tid != tid:''',
     '''        saved_tid = info.get('tid')
        if saved_tid is None:
            pass
        elif saved_tid != tid:''')
breaker('C14', 'newargs-branch-tests-truth-of-the-database-name', 'C14.R14',
        SERPY, 'ObjectWriter.persistent_id',
        '''            if database_name is not None:
                return ['n', (database_name, oid)]''',
        '''            if database_name:
                return ['n', (database_name, oid)]''')
breaker('C14', 'reset-cache-gives-the-reader-the-old-cache', 'C14.R15', CONNPY,
        'Connection._resetCache',
        '''        self._cache = cache = PickleCache(self, cache_size, cache_size_bytes)
        if getattr(self, '_reader', None) is not None:
            self._reader._cache = cache''',
        '''        self._reader = ObjectReader(self, self._cache, self._db.classFactory)
        self._cache = PickleCache(self, cache_size, cache_size_bytes)''')
twin('C14', 'reset-cache-rebinds-the-reader-from-the-attribute', CONNPY,
     'Connection._resetCache',
     '''        self._cache = cache = PickleCache(self, cache_size, cache_size_bytes)
        if getattr(self, '_reader', None) is not None:
            self._reader._cache = cache''',
     '''        self._cache = PickleCache(self, cache_size, cache_size_bytes)
        if getattr(self, '_reader', None) is not None:
            self._reader._cache = self._cache''')
breaker('C17', 'data-find-follows-a-zero-backpointer', 'C17.R18', FSPY,
        'FileStorage._data_find',
        '''            # This is also a backpointer,  Gotta trust it.
            return data_pos''',
        '''            if self._loadBack_impl(oid, data_hdr.back, False)[0] != data:
                return 0
            return data_pos''')
twin('C17', 'data-find-follows-a-nonzero-backpointer', FSPY,
     'FileStorage._data_find',
     '''            # This is also a backpointer,  Gotta trust it.
            return data_pos''',
     '''            if data_hdr.back and self._loadBack_impl(
                    oid, data_hdr.back, False)[0] != data:
                return 0
            return data_pos''')
breaker('C17', 'verbose-copy-takes-len-of-every-record', 'C17.R19', BSPY,
        'copy',
        '''len(r.data or b'')''', '''len(r.data)''')
breaker('C07', 'pack-works-off-a-stale-removal-list-first', 'C07.R12', FSPY,
        'FileStorage.pack',
        '''            pack_result = None
            try:
                pack_result = self.packer(self, referencesf, stop, gc)''',
        '''            if self.blob_dir and os.path.exists(
                    os.path.join(self.blob_dir, '.removed')):
                self._remove_blob_files_tagged_for_removal_during_pack()
            pack_result = None
            try:
                pack_result = self.packer(self, referencesf, stop, gc)''')
breaker('C07', 'mapping-gc-sweeps-from-the-root-alone', 'C07.R7', MSPY,
        'MappingStorage.pack',
        '''            for oid, tid_data in self._data.items():
                if tid_data.maxKey() > stop:
                    to_copy.add(oid)
            while to_copy:''', '''            while to_copy:''')
breaker('C16', 'demo-store-skips-the-lookup-for-new-objects', 'C16.R3', DSPY,
        'DemoStorage.store',
        '''        try:
            old = load_current(self, oid)[1]
        except ZODB.POSException.POSKeyError:
            old = serial
''', '''        if serial == ZODB.utils.z64:
            old = serial
        else:
            try:
                old = load_current(self, oid)[1]
            except ZODB.POSException.POSKeyError:
                old = serial
''')
breaker('C10', 'demo-begin-empties-the-resolved-list-while-waiting', 'C20.R7',
        DSPY, 'DemoStorage.tpc_begin',
        '''                    "Duplicate tpc_begin calls for same transaction")

        self._commit_lock.acquire()
''', '''                    "Duplicate tpc_begin calls for same transaction")
            del self._resolved[:]

        self._commit_lock.acquire()
''')
breaker('C19', 'maxkey-in-bucket-test-strict', 'C19.R9', FSIPY,
        'fsIndex.maxKey',
        '''        else:
            try:
                biggest_suffix = tree.maxKey(key[6:])
            except ValueError:  # 'empty tree' (no suffix <= arg)
                if biggest_prefix == b'\\0' * 6:
                    raise  # there is no smaller prefix
                next_prefix = prefix_minus_one(biggest_prefix)
                biggest_prefix = self._data.maxKey(next_prefix)
                tree = self._data[biggest_prefix]
                assert tree
                biggest_suffix = tree.maxKey()
''', '''        elif key[6:] > tree.minKey():
            biggest_suffix = tree.maxKey(key[6:])
        else:
            if biggest_prefix == b'\\0' * 6:
                raise ValueError('empty tree')
            next_prefix = prefix_minus_one(biggest_prefix)
            biggest_prefix = self._data.maxKey(next_prefix)
            tree = self._data[biggest_prefix]
            assert tree
            biggest_suffix = tree.maxKey()
''')
twin('C19', 'maxkey-in-bucket-test-non-strict', FSIPY, 'fsIndex.maxKey',
     '''        else:
            try:
                biggest_suffix = tree.maxKey(key[6:])
            except ValueError:  # 'empty tree' (no suffix <= arg)
                if biggest_prefix == b'\\0' * 6:
                    raise  # there is no smaller prefix
                next_prefix = prefix_minus_one(biggest_prefix)
                biggest_prefix = self._data.maxKey(next_prefix)
                tree = self._data[biggest_prefix]
                assert tree
                biggest_suffix = tree.maxKey()
''', '''        elif key[6:] >= tree.minKey():
            biggest_suffix = tree.maxKey(key[6:])
        else:
            if biggest_prefix == b'\\0' * 6:
                raise ValueError('empty tree')
            next_prefix = prefix_minus_one(biggest_prefix)
            biggest_prefix = self._data.maxKey(next_prefix)
            tree = self._data[biggest_prefix]
            assert tree
            biggest_suffix = tree.maxKey()
''')

# ---- round 11
breaker('C13', 'sweep-cutoff-read-per-directory', 'C13.R20', BLOBPY,
        'BlobStorage._packNonUndoing',
        '''            files, newer = self._blob_sweep_files(oid_path, cutoff)''',
        '''            cutoff = self.__storage.lastTransaction()
            files, newer = self._blob_sweep_files(oid_path, cutoff)''')
breaker('C13', 'scheduled-undo-copy-skipped-for-a-dirty-blob', 'C13.R21', FSPY,
        'FileStorage._txn_undo_write',
        '''        for oid, userial in blobs:
            tmp = mktemp(dir=self.fshelper.temp_dir)''',
        '''        for oid, userial in blobs:
            if (oid, self._tid) in self.dirty_oids:
                continue
            tmp = mktemp(dir=self.fshelper.temp_dir)''')
breaker('C13', 'dropped-backpointer-record-not-followed', 'C13.R22', PACKPY,
        'FileStoragePacker.copyDataRecords',
        '''                    if h.plen:
                        data = self._file.read(h.plen)
                    else:
                        data = self.fetchDataViaBackpointer(h.oid, h.back)
                    if data and self._storage.is_blob_record(data):''',
        '''                    data = self._file.read(h.plen) if h.plen else None
                    if data and self._storage.is_blob_record(data):''')
breaker('C13', 'undo-copy-left-behind-on-failure', 'C13.R23', FSPY,
        'FileStorage._txn_undo_write',
        '''            except BaseException:
                # Don't leave a (partial) copy behind in the blob directory.
                if os.path.exists(tmp):
                    os.remove(tmp)
                raise''',
        '''            except BaseException:
                raise''')
twin('C13', 'undo-copy-removed-in-a-finally', FSPY,
     'FileStorage._txn_undo_write',
     '''            except BaseException:
                # Don't leave a (partial) copy behind in the blob directory.
                if os.path.exists(tmp):
                    os.remove(tmp)
                raise''',
     '''            finally:
                if os.path.exists(tmp):
                    os.remove(tmp)''')
breaker('C06', 'undo-records-indexed-while-written', 'C06.R15', FSPY,
        'FileStorage._txn_undo_write',
        '''                tindex[h.oid] = here
                here += new.recordlen()''',
        '''                tindex[h.oid] = here
                self._tindex[h.oid] = here
                here += new.recordlen()''')
breaker('C12', 'abort-savepoint-invalidates-before-switching-back', 'C12.R13',
        CONNPY, 'Connection._abort_savepoint',
        '''        self._storage = self._normal_storage
        self._savepoint_storage = None
''', '''        self._cache.invalidate(src.index)
        self._storage = self._normal_storage
        self._savepoint_storage = None
''')
breaker('C15', 'future-test-against-the-clock-only', 'C15.R7', DBPY, 'DB.open',
        '''            before > self.lastTransaction() and
                before > getTID(self.lastTransaction(), None)):''',
        '''            before > utils.newTid(None) and
                before > getTID(self.lastTransaction(), None)):''')
breaker('C05', 'undo-abort-hands-the-raw-transaction', 'C05.R8', DBPY,
        'TransactionalUndo.tpc_abort',
        '''            transaction = transaction.data(self)
            self._storage.tpc_abort(transaction)''',
        '''            self._storage.tpc_abort(transaction)''')
# ---- round 12
breaker('C19', 'delitem-through-nested-subscript', 'C19.R2', FSIPY,
        'fsIndex.__delitem__',
        '''        treekey = key[:6]
        tree = self._data.get(treekey)
        if tree is None:
            raise KeyError(key)
        del tree[key[6:]]
        if not tree:
            del self._data[treekey]
''', '''        try:
            del self._data[key[:6]][key[6:]]
        except KeyError:
            raise KeyError(key)
''')
twin('C19', 'delitem-through-nested-subscript-bucket-removed', FSIPY,
     'fsIndex.__delitem__',
     '''        treekey = key[:6]
        tree = self._data.get(treekey)
        if tree is None:
            raise KeyError(key)
        del tree[key[6:]]
        if not tree:
            del self._data[treekey]
''', '''        try:
            del self._data[key[:6]][key[6:]]
        except KeyError:
            raise KeyError(key)
        if not self._data[key[:6]]:
            del self._data[key[:6]]
''')
breaker('C08', 'demo-failed-pack-keeps-the-raised-time', 'C08.R16', DSPY,
        'DemoStorage.pack',
        '''        except BaseException:
            # (Also: the gc arg isn't supported.)  Nothing was packed.''',
        '''        except TypeError:
            # (Also: the gc arg isn't supported.)  Nothing was packed.''')
breaker('C08', 'demo-failed-pack-restores-nothing', 'C08.R16', DSPY,
        'DemoStorage.pack',
        '''            with self._lock:
                self._packed_to = previous
            raise
''', '''            raise
''')
twin('C08', 'demo-failed-pack-restores-in-finally', DSPY, 'DemoStorage.pack',
     '''        try:
            self.changes.pack(t, referencesf, gc=False)
        except BaseException:
            # (Also: the gc arg isn't supported.)  Nothing was packed.
            with self._lock:
                self._packed_to = previous
            raise
''', '''        done = False
        try:
            self.changes.pack(t, referencesf, gc=False)
            done = True
        finally:
            if not done:
                with self._lock:
                    self._packed_to = previous
''')
breaker('C04', 'data-find-trusts-the-length', 'C04.R12', FSPY,
        'FileStorage._data_find',
        '''            _data = self._file.read(data_hdr.plen)
            if data != _data:
                return 0
            return data_pos''',
        '''            return data_pos''')
breaker('C04', 'copier-data-find-trusts-the-length', 'C04.R12', PACKPY,
        'PackCopier._data_find',
        '''        if data != _data:
            return 0
        return data_pos''',
        '''        return data_pos''')
twin('C04', 'data-find-returns-on-equal', FSPY, 'FileStorage._data_find',
     '''            if data != _data:
                return 0
            return data_pos''',
     '''            if _data == data:
                return data_pos
            return 0''')
# ---- round 13
breaker('C09', 'index-kept-when-saved-at-the-bound', 'C09.R14', FSPY,
        'FileStorage.__init__',
        'if r is not None and r[2] >= stop:',
        'if r is not None and r[2] > stop:')
twin('C09', 'index-bound-test-negated', FSPY, 'FileStorage.__init__',
     'if r is not None and r[2] >= stop:',
     'if r is not None and not r[2] < stop:')
twin('C09', 'index-bound-test-sides-swapped', FSPY, 'FileStorage.__init__',
     'if r is not None and r[2] >= stop:',
     'if r is not None and stop <= r[2]:')
breaker('C13', 'sweep-sets-the-file-at-the-cutoff-aside', 'C13.R24', BLOBPY,
        'BlobStorage._blob_sweep_files',
        'if serial is not None and serial > cutoff:',
        'if serial is not None and serial >= cutoff:')
twin('C13', 'sweep-cutoff-test-sides-swapped', BLOBPY,
     'BlobStorage._blob_sweep_files',
     'if serial is not None and serial > cutoff:',
     'if serial is not None and cutoff < serial:')
breaker('C10', 'refusal-remembered-as-unresolvable', 'C10.R9', CRPY,
        'tryToResolveConflict',
        '''        logger.debug(
            "Conflict resolution on %s failed with %s: %s",
            klass, e.__class__.__name__, str(e))
''', '''        logger.debug(
            "Conflict resolution on %s failed with %s: %s",
            klass, e.__class__.__name__, str(e))
        _unresolvable[klass] = 1
''')
