"""Shared matchers for the two-phase-commit rules: commit-lock operations,
the transaction-identity guard, the storage classes analysed."""

import ast

from .flow import identity_test, path_ends, path_is, strip_not
from .model import dotted

FS = 'ZODB.FileStorage.FileStorage.FileStorage'
BS = 'ZODB.BaseStorage.BaseStorage'
MS = 'ZODB.MappingStorage.MappingStorage'
DS = 'ZODB.DemoStorage.DemoStorage'
BLOBSTORAGE = 'ZODB.blob.BlobStorage'

STORAGES = (FS, MS, DS)


def commit_lock_ops(F, node):
    """['acq' | 'rel', ...] commit-lock operations performed by `node`."""
    out = []
    for op in F.ops(node):
        if op.kind == 'call' and op.path is not None:
            if path_ends(op.path, ('_commit_lock', 'acquire')):
                out.append(('acq', op))
            elif path_ends(op.path, ('_commit_lock', 'release')):
                out.append(('rel', op))
    return out


def resolve_local(expr, F, fr, depth=0):
    """Replace a local Name by its defining expression when the local has a
    single definition in the function."""
    if isinstance(expr, ast.Name) and depth < 4:
        defs = F.b.local_defs(fr.func).get(expr.id)
        if defs and len(defs) == 1 and isinstance(defs[0], ast.AST) and \
                expr.id not in fr.func.params:
            return resolve_local(defs[0], F, fr, depth + 1)
    return expr


def _is_txn_param(path, fr):
    return path is not None and len(path) == 2 and path[0] == '%param'


def _is_owner(expr, F, fr):
    """`self._transaction`, or the result of `<x>.tpc_transaction()`."""
    expr = resolve_local(expr, F, fr)
    if isinstance(expr, ast.Call):
        dn = dotted(expr.func)
        if dn and dn[-1] == 'tpc_transaction':
            return True
        # local bound to getattr(x, 'tpc_transaction', None), then called
        f = resolve_local(expr.func, F, fr)
        if isinstance(f, ast.Call) and isinstance(f.func, ast.Name) and \
                f.func.id == 'getattr' and len(f.args) >= 2 and \
                isinstance(f.args[1], ast.Constant) and \
                f.args[1].value == 'tpc_transaction':
            return True
        return False
    p = F.canon(expr, fr) if dotted(expr) else None
    return p is not None and p[-1] == '_transaction' and p[0] == 'self'


def identity_guard(node, F):
    """If `node` is a test comparing the caller's transaction with the
    storage's current one, return the edge label ('T' or 'F') taken when they
    are the SAME transaction; else None.

    Accepted spellings: `a is b`, `a is not b`, `not (a is b)`, `==`/`!=`,
    either operand order, the predicate bound to a local first, and the
    capability idiom `getter is None or getter() is txn`."""
    if node.kind != 'test':
        return None
    fr = node.frame
    test = resolve_local(node.ast, F, fr)
    inner, pol = strip_not(test)
    inner = resolve_local(inner, F, fr)
    if isinstance(inner, ast.Call):
        # a predicate helper whose body is `return <identity expression>`
        tgt = F.b.resolve_call(inner, fr)
        if tgt is not None and not tgt.func.is_generator:
            rets = [x for x in ast.walk(tgt.func.node)
                    if isinstance(x, ast.Return)]
            if len(rets) == 1 and rets[0].value is not None:
                fr = F.b.make_frame(inner, tgt, fr)
                inner2, pol2 = strip_not(resolve_local(rets[0].value, F, fr))
                inner = resolve_local(inner2, F, fr)
                pol = pol if pol2 else (not pol)
    if isinstance(inner, ast.BoolOp) and isinstance(inner.op, ast.Or):
        # capability idiom: every operand but one is `<x> is None`
        ident = [v for v in inner.values if _identity_same(v, F, fr)
                 is not None]
        others = [v for v in inner.values if _identity_same(v, F, fr) is None]
        if len(ident) == 1 and all(_is_none_test(o) for o in others):
            same = _identity_same(ident[0], F, fr)
            if same is True:
                return 'T' if pol else 'F'
        return None
    same = _identity_same(inner, F, fr)
    if same is None:
        return None
    # same=True: expression is true when identical
    truth_when_same = same if pol else (not same)
    return 'T' if truth_when_same else 'F'


def _is_none_test(e):
    return isinstance(e, ast.Compare) and len(e.ops) == 1 and \
        isinstance(e.ops[0], ast.Is) and \
        isinstance(e.comparators[0], ast.Constant) and \
        e.comparators[0].value is None


def _identity_same(expr, F, fr):
    r = identity_test(expr)
    if r is None:
        return None
    left, right, same = r
    for a, b in ((left, right), (right, left)):
        pa = F.canon(resolve_local(a, F, fr), fr) \
            if dotted(resolve_local(a, F, fr)) else None
        if _is_txn_param(pa, fr) and _is_owner(b, F, fr):
            return same
    return None
