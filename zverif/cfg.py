"""Statement-level control-flow graph with exception edges, `finally` and
`with` exits duplicated per continuation, and optional inlining of statically
resolved callees (DESIGN.md sections 2.2, 2.3).

Construction is backwards: every builder takes the continuations `K` of the
construct and returns the id of its entry node.
"""

import ast
import builtins
from collections import namedtuple

from . import AnalysisError
from .model import ClassInfo, External, FunctionInfo, attr_type, dotted, \
    element_type, mangle, walk_local

K = namedtuple('K', 'nxt exc ret brk cont')


class Node:
    __slots__ = ('id', 'kind', 'ast', 'frame', 'succ', 'info')

    def __init__(self, id, kind, astnode, frame, info=None):
        self.id = id
        self.kind = kind
        self.ast = astnode
        self.frame = frame
        self.succ = []       # [(target id, label)]
        self.info = info or {}

    @property
    def lineno(self):
        n = self.ast
        return getattr(n, 'lineno', None) if n is not None else None

    def where(self):
        f = self.frame
        ln = self.lineno
        return '%s:%s' % (f.func.module.relpath if f else '?', ln if ln else '?')

    def text(self, limit=100):
        if self.ast is None:
            return '<%s>' % self.kind
        try:
            if self.kind in ('test',):
                s = ast.unparse(self.ast)
            elif self.kind == 'for':
                s = 'for %s in %s' % (ast.unparse(self.ast.target),
                                      ast.unparse(self.ast.iter))
            elif isinstance(self.ast, ast.ExceptHandler):
                s = 'except %s' % (ast.unparse(self.ast.type)
                                   if self.ast.type else '')
            elif isinstance(self.ast, (ast.With, ast.Try, ast.If, ast.While,
                                       ast.For, ast.FunctionDef)):
                s = '<%s %s>' % (self.kind, type(self.ast).__name__)
            else:
                s = ast.unparse(self.ast)
        except Exception:
            s = '<%s>' % self.kind
        s = ' '.join(s.split())
        if self.kind in ('acq', 'rel'):
            s = '%s(%s)' % (self.kind, '.'.join(self.info.get('lock', ('?',))))
        elif self.kind in ('call', 'callret'):
            s = '%s %s' % (self.kind, self.info['target'].func.short)
        return s[:limit]

    def __repr__(self):
        return '<N%d %s %s>' % (self.id, self.kind, self.text(60))


class Frame:
    """One activation in the inlined graph: function + class context."""
    _count = 0

    def __init__(self, func, cls, parent=None, call=None, self_path=('self',),
                 bindings=None, via=None):
        Frame._count += 1
        self.id = Frame._count
        self.func = func
        self.cls = cls            # class *context* (concrete class analysed)
        self.parent = parent
        self.call = call          # ast.Call in the parent frame
        self.self_path = self_path
        self.bindings = bindings or {}   # param -> (ast expr, parent frame)
        self.depth = 0 if parent is None else parent.depth + 1
        self.via = via            # 'call' | 'with'
        self.call_stmt = None     # statement (ast) containing the call

    def chain(self):
        f = self
        out = []
        while f is not None:
            out.append(f)
            f = f.parent
        return out

    def stack_text(self):
        return ' <- '.join(f.func.short for f in self.chain())

    def __repr__(self):
        return '<frame %s in %s>' % (self.func.short,
                                     self.cls.name if self.cls else '-')


class Target:
    def __init__(self, func, cls, self_path, bind_self=True, kind='method'):
        self.func = func
        self.cls = cls
        self.self_path = self_path
        self.bind_self = bind_self
        self.kind = kind


class CFG:
    def __init__(self):
        self.nodes = []
        self.entry = None
        self.exit_return = None
        self.exit_raise = None
        self.root = None

    def new(self, kind, astnode, frame, info=None):
        n = Node(len(self.nodes), kind, astnode, frame, info)
        self.nodes.append(n)
        return n

    def reachable(self):
        seen = {self.entry}
        stack = [self.entry]
        while stack:
            i = stack.pop()
            for t, _ in self.nodes[i].succ:
                if t not in seen:
                    seen.add(t)
                    stack.append(t)
        return seen

    def preds(self):
        p = {}
        for i in self.reachable():
            for t, lab in self.nodes[i].succ:
                p.setdefault(t, []).append((i, lab))
        return p

    def dump(self):
        out = []
        for i in sorted(self.reachable()):
            n = self.nodes[i]
            out.append('%4d %-9s %-28s %-60s -> %s' % (
                i, n.kind, n.frame.func.short if n.frame else '',
                n.text(60),
                ' '.join('%d%s' % (t, '' if lab == 'n' else ':' + lab)
                         for t, lab in n.succ)))
        return '\n'.join(out)


# ----------------------------------------------------------------- helpers

CATCH_ALL = {'BaseException', 'Exception'}


def header_exprs(stmt):
    """The expressions evaluated by the node that represents `stmt` itself
    (not its nested blocks)."""
    if isinstance(stmt, (ast.If, ast.While)):
        return [stmt.test]
    if isinstance(stmt, ast.For):
        return [stmt.iter]
    if isinstance(stmt, ast.With):
        return [i.context_expr for i in stmt.items]
    if isinstance(stmt, (ast.FunctionDef, ast.AsyncFunctionDef,
                         ast.ClassDef)):
        return []
    if isinstance(stmt, ast.Try):
        return []
    return [stmt]


def calls_in_order(node):
    """Call nodes under `node` in (approximate) evaluation order: arguments
    before the call itself; lambdas, comprehensions' inner scopes and nested
    definitions are not entered."""
    out = []

    def visit(n):
        if isinstance(n, (ast.Lambda, ast.FunctionDef, ast.AsyncFunctionDef,
                          ast.ClassDef)):
            return
        if isinstance(n, ast.Call):
            visit(n.func)
            for a in n.args:
                visit(a)
            for kw in n.keywords:
                visit(kw.value)
            out.append(n)
            return
        for c in ast.iter_child_nodes(n):
            visit(c)

    visit(node)
    return out


NONRAISING_BUILTINS = {'len', 'isinstance', 'hasattr', 'id', 'bool', 'set',
                       'dict', 'list', 'tuple', 'callable', 'repr', 'type'}
NONRAISING_METHODS = {'acquire', 'release', 'notify_all', 'notifyAll',
                      'notify',
                      'debug', 'info', 'warning', 'error', 'critical',
                      'exception', 'log'}
CONTAINER_NONRAISING = {'append', 'add', 'clear', 'copy', 'get', 'items',
                        'keys', 'values', 'update', 'discard', 'extend',
                        'difference_update'}


class EB(int):
    """Target of an exception edge that only a BaseException which is not an
    Exception (KeyboardInterrupt, SystemExit, GeneratorExit, greenlet
    timeouts ...) takes: it passes an `except Exception:` handler.  Such
    edges get the label 'eb'; rules follow them only if they ask to."""


def _lab(t):
    return 'eb' if isinstance(t, EB) else 'e'


class RaiseSpec:
    """What a statement may raise: any builtin (implicit) exception, the
    in-repo exception classes raised explicitly by the functions it calls
    (transitively), and -- if it calls something we cannot see -- anything."""

    def __init__(self, explicit, opaque):
        self.explicit = frozenset(explicit)
        self.opaque = opaque


FILE_ATTRS = {'_file', '_tfile', 'file', '_lock_file', 'blob_removed',
              '_cond', '_lock', '_commit_lock'}
FILE_METHODS = {'read', 'write', 'seek', 'tell', 'close', 'flush', 'truncate',
                'fileno', 'readline', 'readlines'}


class Builder:
    """Builds the (optionally inlined) CFG of one function in one class
    context."""

    def __init__(self, prog, max_depth=3, inline=None, max_nodes=60000,
                 lock_names=None):
        self.prog = prog
        self.max_depth = max_depth
        self.inline_filter = inline      # callable(Target, Frame) -> bool
        self.max_nodes = max_nodes
        self.bound_hit = []              # calls not inlined because of depth
        self.inlined = set()             # (id(call ast), caller frame id)
        self.unresolved = 0
        self.resolved = 0

    # ------------------------------------------------------------ public

    def build(self, func, cls=None, self_path=('self',)):
        g = CFG()
        self.g = g
        root = Frame(func, cls, self_path=self_path)
        if cls is not None and func.cls is None and func.params:
            # module function installed as a method (BaseStorage.
            # checkCurrentSerialInTransaction = ...): first parameter is self
            root.bindings[func.params[0]] = (None, None, 'self')
        g.root = root
        g.exit_return = g.new('exit-return', None, root).id
        g.exit_raise = g.new('exit-raise', None, root).id
        k = K(nxt=g.exit_return, exc=lambda raised: [g.exit_raise],
              ret=g.exit_return, brk=None, cont=None)
        body_entry = self.function_body(func, root, k)
        e = g.new('entry', func.node, root)
        e.succ.append((body_entry, 'n'))
        g.entry = e.id
        return g

    # ---------------------------------------------------- function bodies

    def function_body(self, func, frame, k, yield_body=None):
        """CFG of the body of `func` in `frame`; honours @locked."""
        body = func.node.body
        if func.locked is not None:
            lockpath = frame.self_path + ('_lock',)
            pre = func.locked

            def build_body(kb):
                entry = self.seq(body, kb, frame, yield_body)
                for p in reversed(pre):
                    # precondition: `if not self.<p>(): raise AssertionError`
                    t = self.g.new('precond', func.node, frame,
                                   {'precondition': p})
                    t.succ.append((entry, 'T'))
                    for x in kb.exc({'AssertionError'}):
                        t.succ.append((int(x), _lab(x)))
                    entry = t.id
                return entry

            return self.lock_region(lockpath, func.node, frame, build_body, k,
                                    has_ret=True, has_brk=False,
                                    has_cont=False)
        return self.seq(body, k, frame, yield_body)

    def seq(self, stmts, k, frame, yield_body=None):
        nxt = k.nxt
        for s in reversed(stmts):
            nxt = self.stmt(s, k._replace(nxt=nxt), frame, yield_body)
        return nxt

    # --------------------------------------------------------- statements

    def stmt(self, s, k, fr, yb):
        if len(self.g.nodes) > self.max_nodes:
            raise AnalysisError('CFG of %s exceeds %d nodes' % (
                self.g.root.func.qualname, self.max_nodes))
        m = getattr(self, 'stmt_' + type(s).__name__, None)
        if m is not None:
            return m(s, k, fr, yb)
        return self.simple(s, k, fr, 'stmt')

    def simple(self, s, k, fr, kind, nxt=None, label='n', info=None,
               exprs=None):
        """A node for `s` followed by k.nxt, preceded by the inlined bodies
        of the calls it contains."""
        n = self.g.new(kind, s, fr, info)
        exprs = header_exprs(s) if exprs is None else exprs
        if not self.contains_noreturn(exprs, fr):
            n.succ.append((k.nxt if nxt is None else nxt, label))
        if self.may_raise(exprs, fr):
            for t in k.exc(self.raise_spec(exprs, fr)):
                n.succ.append((int(t), _lab(t)))
        return self.inline_calls(exprs, n.id, k, fr, s)

    def raise_spec(self, exprs, fr):
        explicit = set()
        opaque = False
        for e in exprs:
            if e is None:
                continue
            for call in calls_in_order(e):
                tgt = self.resolve_call(call, fr)
                if tgt is not None:
                    ex, op = self.explicit_raises(tgt.func, tgt.cls)
                    explicit |= ex
                    opaque = opaque or op
                elif not self.benign_call(call, fr):
                    opaque = True
            for n in ast.walk(e):
                if isinstance(n, (ast.Yield, ast.YieldFrom, ast.Await)):
                    opaque = True
        return RaiseSpec(explicit, opaque)

    def benign_call(self, call, fr):
        """An unresolved call that cannot raise an in-repo exception class:
        builtins, os/struct/time..., file objects, locks, loggers, builtin
        containers."""
        if self.call_is_nonraising(call, fr):
            return True
        dn = dotted(call.func)
        if dn is None:
            # e.g. self._out.pop().close()
            if isinstance(call.func, ast.Attribute) and \
                    call.func.attr in FILE_METHODS:
                return True
            return False
        p = self.canon(call.func, fr)
        if p is None:
            return False
        if p[0].startswith('@'):
            q = p[0][1:]
            if q.split('.')[0] != self.prog.package:
                return True      # builtin or third-party module function
            obj = self.prog.resolve_qual(q)
            if isinstance(obj, ClassInfo):
                # constructor of an in-repo class: its __init__
                r = self.prog.find_method(obj, '__init__')
                if r is None:
                    return True
                ex, op = self.explicit_raises(r[0], obj)
                return not ex and not op
            if isinstance(obj, tuple) and obj[0] == 'const':
                return True      # fsync = getattr(os, ...) and the like
            return False
        if len(p) >= 2 and p[-1] in FILE_METHODS and (
                p[-2] in FILE_ATTRS or p[0] in ('%local', '%param', '%arg',
                                                 '%default')):
            return True
        if len(p) >= 2 and p[-1] in CONTAINER_NONRAISING | {
                'pop', 'remove', 'popitem', 'setdefault', 'sort', 'reverse',
                'index', 'count', 'insert', 'find', 'split', 'strip',
                'rstrip', 'join', 'format', 'encode', 'decode', 'startswith',
                'endswith', 'raw', 'timeTime', 'laterThan', 'maxKey',
                'minKey', 'wait', 'tell'}:
            return True
        t = self.path_type(p[:-1], fr) if len(p) >= 2 else None
        if t in ('file', 'lock:Lock', 'lock:RLock', 'lock:Condition'):
            return True
        return False

    def explicit_raises(self, func, cls):
        """(set of in-repo exception class names explicitly raised by `func`
        or the functions it calls, calls something opaque?)"""
        cache = self.prog.__dict__.setdefault('_explicit_raises', {})
        key = (func.qualname, cls.qualname if cls is not None else None)
        if key in cache:
            return cache[key]
        cache[key] = (frozenset(), False)       # recursion guard
        explicit = set()
        opaque = False
        if func.is_generator and not func.is_contextmanager:
            cache[key] = (frozenset(), True)
            return cache[key]
        fr = Frame(func, cls)
        if cls is not None and func.cls is None and func.params:
            fr.bindings[func.params[0]] = (None, None, 'self')
        saved = getattr(self, 'g', None)
        if saved is None or saved.root is None:
            self.g = CFG()
            self.g.root = fr
        for n in walk_local(func.node):
            if isinstance(n, ast.Raise) and n.exc is not None:
                q = self.exc_class_names(n.exc, fr)
                if q is None:
                    opaque = True
                else:
                    for x in q:
                        if '.' in x:
                            explicit.add(x)
            elif isinstance(n, ast.Call):
                tgt = self.resolve_call(n, fr)
                if tgt is not None:
                    ex, op = self.explicit_raises(tgt.func, tgt.cls)
                    explicit |= ex
                    opaque = opaque or op
                elif not self.benign_call(n, fr):
                    opaque = True
        if saved is not None:
            self.g = saved
        cache[key] = (frozenset(explicit), opaque)
        return cache[key]

    def contains_noreturn(self, exprs, fr):
        """Does the statement call a function that always raises (panic,
        fail, read_only_writer, ...)?  Derived, not listed."""
        for e in exprs:
            if e is None:
                continue
            for call in calls_in_order(e):
                tgt = self.resolve_call(call, fr)
                if tgt is not None and self.noreturn(tgt.func, tgt.cls):
                    return True
        return False

    def noreturn(self, func, cls):
        cache = self.prog.__dict__.setdefault('_noreturn', {})
        key = (func.qualname, cls.qualname if cls is not None else None)
        if key not in cache:
            cache[key] = False      # recursion guard
            if func.is_generator or func.locked is not None:
                return False
            try:
                sub = Builder(self.prog, max_depth=0)
                g = sub.build(func, cls)
                cache[key] = g.exit_return not in g.reachable()
            except AnalysisError:
                cache[key] = False
        return cache[key]

    def inline_calls(self, exprs, entry, k, fr, stmt=None):
        calls = []
        for e in exprs:
            calls.extend(calls_in_order(e))
        for call in reversed(calls):
            tgt = self.resolve_call(call, fr)
            if tgt is None:
                continue
            if not self.want_inline(tgt, fr, call):
                continue
            entry = self.inline(call, tgt, fr, entry, k, stmt)
        return entry

    def want_inline(self, tgt, fr, call):
        f = tgt.func
        if f.is_generator:
            return False
        for a in fr.chain():
            if a.func is f and a.cls is tgt.cls:
                return False       # recursion is cut
        if self.inline_filter is not None:
            v = self.inline_filter(tgt, fr)
            if v is False:
                return False
            if v == 'force':
                return True
        if fr.depth + 1 > self.max_depth:
            self.bound_hit.append((fr, call, tgt))
            return False
        return True

    def make_frame(self, call, tgt, fr, via='call'):
        f = tgt.func
        bindings = {}
        params = list(f.params)
        args = list(call.args) if call is not None else []
        if tgt.bind_self and params and not f.is_static:
            recv = call.func.value if (call is not None and isinstance(
                call.func, ast.Attribute)) else None
            bindings[params[0]] = (recv, fr, 'self')
            params = params[1:]
        elif tgt.kind == 'unbound' and params and args:
            # Class.m(self, ...): first argument is the receiver
            bindings[params[0]] = (args[0], fr, 'self')
            params = params[1:]
            args = args[1:]
        for p, a in zip(params, args):
            if isinstance(a, ast.Starred):
                break
            bindings[p] = (a, fr, 'arg')
        if call is not None:
            for kw in call.keywords:
                if kw.arg is not None:
                    bindings[kw.arg] = (kw.value, fr, 'arg')
        # defaults for parameters not supplied
        node = f.node
        pos = node.args.posonlyargs + node.args.args
        defaults = node.args.defaults
        for a, d in zip(pos[len(pos) - len(defaults):], defaults):
            if a.arg not in bindings:
                bindings[a.arg] = (d, None, 'default')
        for a, d in zip(node.args.kwonlyargs, node.args.kw_defaults):
            if d is not None and a.arg not in bindings:
                bindings[a.arg] = (d, None, 'default')
        return Frame(f, tgt.cls, parent=fr, call=call,
                     self_path=tgt.self_path if tgt.self_path else ('self',),
                     bindings=bindings, via=via)

    def inline(self, call, tgt, fr, after, k, stmt=None):
        nf = self.make_frame(call, tgt, fr)
        nf.call_stmt = stmt
        self.inlined.add((id(call), fr.id))
        self.resolved += 1
        cr = self.g.new('callret', call, nf, {'target': tgt})
        cr.succ.append((after, 'n'))
        kk = K(nxt=cr.id, exc=k.exc, ret=cr.id, brk=None, cont=None)
        body = self.function_body(tgt.func, nf, kk)
        c = self.g.new('call', call, nf, {'target': tgt})
        c.succ.append((body, 'n'))
        return c.id

    # compound statements ------------------------------------------------

    def stmt_If(self, s, k, fr, yb):
        a = self.seq(s.body, k, fr, yb)
        b = self.seq(s.orelse, k, fr, yb)
        return self.test(s, s.test, a, b, k, fr)

    def test(self, s, test, t_entry, f_entry, k, fr):
        n = self.g.new('test', test, fr, {'stmt': s})
        cv = const_truth(test)
        if cv is not False:
            n.succ.append((t_entry, 'T'))
        if cv is not True:
            n.succ.append((f_entry, 'F'))
        if self.may_raise([test], fr):
            for t in k.exc(self.raise_spec([test], fr)):
                n.succ.append((int(t), _lab(t)))
        return self.inline_calls([test], n.id, k, fr, s)

    def stmt_While(self, s, k, fr, yb):
        head = self.g.new('loophead', s, fr)
        after = k.nxt
        orelse = self.seq(s.orelse, k, fr, yb) if s.orelse else after
        body = self.seq(s.body, k._replace(nxt=head.id, brk=after,
                                           cont=head.id), fr, yb)
        t = self.test(s, s.test, body, orelse, k, fr)
        head.succ.append((t, 'n'))
        return head.id

    def stmt_For(self, s, k, fr, yb):
        after = k.nxt
        head = self.g.new('for', s, fr)
        orelse = self.seq(s.orelse, k, fr, yb) if s.orelse else after
        body = self.seq(s.body, k._replace(nxt=head.id, brk=after,
                                           cont=head.id), fr, yb)
        head.succ.append((body, 'T'))
        head.succ.append((orelse, 'F'))
        simple_iter = isinstance(s.iter, (ast.Tuple, ast.List)) or (
            isinstance(s.iter, ast.Call) and isinstance(s.iter.func, ast.Name)
            and s.iter.func.id in ('range', 'sorted', 'list', 'enumerate',
                                   'reversed', 'zip', 'tuple'))
        for t in k.exc(RaiseSpec((), not simple_iter)):
            head.succ.append((int(t), _lab(t)))
        it = self.g.new('foriter', s.iter, fr, {'stmt': s})
        it.succ.append((head.id, 'n'))
        if self.may_raise([s.iter], fr):
            for t in k.exc(self.raise_spec([s.iter], fr)):
                it.succ.append((int(t), _lab(t)))
        return self.inline_calls([s.iter], it.id, k, fr, s)

    stmt_AsyncFor = stmt_For

    def stmt_Return(self, s, k, fr, yb):
        return self.simple(s, k, fr, 'return', nxt=k.ret,
                           exprs=[s.value] if s.value is not None else [])

    def stmt_Break(self, s, k, fr, yb):
        n = self.g.new('break', s, fr)
        n.succ.append((k.brk, 'n'))
        return n.id

    def stmt_Continue(self, s, k, fr, yb):
        n = self.g.new('continue', s, fr)
        n.succ.append((k.cont, 'n'))
        return n.id

    def stmt_Pass(self, s, k, fr, yb):
        return k.nxt

    def stmt_Raise(self, s, k, fr, yb):
        n = self.g.new('raise', s, fr)
        raised = None
        exprs = []
        if s.exc is not None:
            exprs = [s.exc]
            q = self.exc_class_names(s.exc, fr)
            if q is not None:
                raised = q
        targets = list(k.exc(raised))
        if raised is not None:
            inner = []
            e = s.exc
            if isinstance(e, ast.Call):
                inner = [c for a in list(e.args) + [kw.value
                                                    for kw in e.keywords]
                         for c in calls_in_order(a)]
            if any(not self.call_is_nonraising(c, fr) for c in inner):
                for t in k.exc(self.raise_spec(list(inner), fr)):
                    if t not in targets:
                        targets.append(t)
        n.info['raised'] = raised
        for t in targets:
            n.succ.append((int(t), _lab(t)))
        return self.inline_calls(exprs, n.id, k, fr, s)

    def stmt_Assert(self, s, k, fr, yb):
        n = self.g.new('assert', s, fr)
        n.succ.append((k.nxt, 'T'))
        seen = set()
        for t in list(k.exc({'AssertionError'})) + (
                list(k.exc(self.raise_spec([s.test], fr)))
                if self.may_raise([s.test], fr) else []):
            if t not in seen:
                seen.add(t)
                n.succ.append((int(t), _lab(t)))
        return self.inline_calls([s.test], n.id, k, fr, s)

    def stmt_FunctionDef(self, s, k, fr, yb):
        n = self.g.new('def', s, fr)
        n.succ.append((k.nxt, 'n'))
        return n.id

    stmt_AsyncFunctionDef = stmt_FunctionDef
    stmt_ClassDef = stmt_FunctionDef

    def stmt_Expr(self, s, k, fr, yb):
        if isinstance(s.value, ast.Yield) and yb is not None:
            return yb(k, s.value)
        if isinstance(s.value, ast.Constant):
            return k.nxt        # docstring / bare constant
        return self.simple(s, k, fr, 'stmt')

    def stmt_Assign(self, s, k, fr, yb):
        if isinstance(s.value, ast.Yield) and yb is not None:
            return yb(k, s.value)
        return self.simple(s, k, fr, 'stmt')

    # try / finally ------------------------------------------------------

    def protected(self, build_body, build_cleanup, k, fr, has_ret, has_brk,
                  has_cont, astnode):
        """Common machinery for try/finally, lock regions and `with`: the
        cleanup is duplicated per continuation."""
        memo = {}

        def fin(kind, target):
            if target is None:
                return None
            key = (kind, target)
            if key not in memo:
                memo[key] = build_cleanup(target, kind)
            return memo[key]

        exc_memo = {}

        def leave_exc(raised):
            if 'x' not in exc_memo:
                rr = self.g.new('reraise', astnode, fr)
                for t in k.exc(None):
                    rr.succ.append((int(t), _lab(t)))
                exc_memo['x'] = build_cleanup(rr.id, 'exc')
            return [exc_memo['x']]

        kb = K(nxt=fin('n', k.nxt), exc=leave_exc,
               ret=fin('ret', k.ret) if has_ret else k.ret,
               brk=fin('brk', k.brk) if has_brk else k.brk,
               cont=fin('cont', k.cont) if has_cont else k.cont)
        return build_body(kb)

    def stmt_Try(self, s, k, fr, yb):
        if s.finalbody:
            has_ret, has_brk, has_cont = scan_jumps(
                s.body + s.orelse + [h for h in s.handlers])

            def build_cleanup(target, kind):
                return self.seq(s.finalbody, k._replace(nxt=target), fr, yb)

            def build_body(kb):
                return self.try_except(s, kb, fr, yb)

            return self.protected(build_body, build_cleanup, k, fr,
                                  has_ret, has_brk, has_cont, s)
        return self.try_except(s, k, fr, yb)

    stmt_TryStar = stmt_Try

    def try_except(self, s, k, fr, yb):
        if not s.handlers:
            return self.seq(s.body + s.orelse, k, fr, yb)
        handlers = []
        for h in s.handlers:
            hn = self.g.new('handler', h, fr)
            hn.succ.append((self.seq(h.body, k, fr, yb), 'n'))
            handlers.append((self.handler_types(h, fr), hn.id))

        def exc_body(raised):
            out = []
            for types, entry in handlers:
                m = self.match(raised, types)
                if m != 'no':
                    out.append(entry)
                if m == 'yes':
                    if types is not None and 'Exception' in types and \
                            'BaseException' not in types and (
                                raised is None or
                                isinstance(raised, RaiseSpec)):
                        # a BaseException that is not an Exception passes
                        out.extend(EB(t) for t in k.exc(raised))
                    return out
            for t in k.exc(raised):
                if t not in out:
                    out.append(t)
            return out

        orelse = self.seq(s.orelse, k, fr, yb) if s.orelse else k.nxt
        return self.seq(s.body, k._replace(nxt=orelse, exc=exc_body), fr, yb)

    def handler_types(self, h, fr):
        """None for a bare except; else a list of class descriptors."""
        if h.type is None:
            return None
        elts = h.type.elts if isinstance(h.type, ast.Tuple) else [h.type]
        out = []
        for e in elts:
            dn = dotted(e)
            obj = self.prog.resolve_dotted(fr.func.module, dn) if dn else None
            if isinstance(obj, ClassInfo):
                out.append(obj.qualname)
            elif dn:
                out.append(dn[-1])
            else:
                out.append('?')
        return out

    def exc_class_names(self, e, fr):
        """Set of class names raised by `raise <e>`, or None if unknown."""
        if isinstance(e, ast.Call):
            e = e.func
        dn = dotted(e)
        if dn is None:
            return None
        obj = self.prog.resolve_dotted(fr.func.module, dn)
        if isinstance(obj, ClassInfo):
            return {obj.qualname}
        if len(dn) == 1 and isinstance(getattr(builtins, dn[0], None), type) \
                and dn[0] not in self.local_names(fr.func):
            return {dn[0]}
        if obj is None and len(dn) > 1:
            # e.g. POSException.ReadOnlyError via an unresolvable module alias
            return None
        return None

    def ancestors(self, name):
        """Names of all classes `name` derives from (itself included)."""
        out = {name}
        obj = self.prog.resolve_qual(name) if '.' in name else None
        if isinstance(obj, ClassInfo):
            for c in self.prog.mro(obj):
                out.add(c.qualname)
                if isinstance(c, External):
                    out |= self.ancestors(c.qualname.split('.')[-1])
        else:
            b = getattr(builtins, name, None)
            if isinstance(b, type):
                for c in b.__mro__:
                    out.add(c.__name__)
        return out

    def match(self, raised, types):
        if types is None:
            return 'yes'
        if any(t in CATCH_ALL for t in types):
            return 'yes'
        if raised is None:
            return 'maybe'
        if isinstance(raised, RaiseSpec):
            if raised.opaque:
                return 'maybe'
            for t in types:
                if '.' not in t:
                    return 'maybe'      # builtin class: implicit exceptions
                anc_t = self.ancestors(t)
                for r in raised.explicit:
                    if t in self.ancestors(r) or r in anc_t:
                        return 'maybe'
            return 'no'
        hits = 0
        for r in raised:
            anc = self.ancestors(r)
            if any(t in anc for t in types):
                hits += 1
        if hits == len(raised):
            return 'yes'
        return 'maybe' if hits else 'no'

    # with ---------------------------------------------------------------

    def stmt_With(self, s, k, fr, yb):
        return self.with_items(s, list(s.items), k, fr, yb)

    stmt_AsyncWith = stmt_With

    def with_items(self, s, items, k, fr, yb):
        item = items[0]
        rest = items[1:]
        has_ret, has_brk, has_cont = scan_jumps(s.body)

        def inner(kb):
            if rest:
                return self.with_items(s, rest, kb, fr, yb)
            return self.seq(s.body, kb, fr, yb)

        ce = item.context_expr
        lock = self.lock_path(ce, fr)
        if lock is not None:
            return self.lock_region(lock, s, fr, inner, k, has_ret, has_brk,
                                    has_cont, item=item)
        if isinstance(ce, ast.Call):
            tgt = self.resolve_call(ce, fr)
            if tgt is not None and tgt.func.is_contextmanager and \
                    self.want_inline_cm(tgt, fr, ce):
                return self.inline_cm(s, item, ce, tgt, inner, k, fr,
                                      has_ret, has_brk, has_cont)

        # opaque context manager
        def build_cleanup(target, kind):
            x = self.g.new('withexit', s, fr, {'item': item, 'exit': kind})
            x.succ.append((target, 'n'))
            return x.id

        def build_body(kb):
            body = inner(kb)
            n = self.g.new('withenter', s, fr, {'item': item})
            n.succ.append((body, 'n'))
            for t in k.exc(self.raise_spec([ce], fr)):
                n.succ.append((int(t), _lab(t)))
            return self.inline_calls([ce], n.id, k, fr, s)

        return self.protected(build_body, build_cleanup, k, fr, has_ret,
                              has_brk, has_cont, s)

    def want_inline_cm(self, tgt, fr, call):
        for a in fr.chain():
            if a.func is tgt.func and a.cls is tgt.cls:
                return False
        if self.inline_filter is not None:
            v = self.inline_filter(tgt, fr)
            if v is False:
                return False
        return True

    def lock_region(self, lock, s, fr, build_inner, k, has_ret, has_brk,
                    has_cont, item=None):
        def build_cleanup(target, kind):
            x = self.g.new('rel', s, fr, {'lock': lock, 'exit': kind,
                                          'with': True})
            x.succ.append((target, 'n'))
            return x.id

        def build_body(kb):
            body = build_inner(kb)
            n = self.g.new('acq', s, fr, {'lock': lock, 'with': True})
            n.succ.append((body, 'n'))
            return n.id

        return self.protected(build_body, build_cleanup, k, fr, has_ret,
                              has_brk, has_cont, s)

    def inline_cm(self, s, item, call, tgt, build_inner, k, fr, has_ret,
                  has_brk, has_cont):
        """`with obj.cm() as v: body` where cm is a @contextmanager generator
        we can see: the generator body is inlined and the with-body is
        spliced in at its `yield`."""
        nf = self.make_frame(call, tgt, fr, via='with')
        nf.call_stmt = s
        self.inlined.add((id(call), fr.id))
        self.resolved += 1
        after_yield = {}

        def flavour(kind, target):
            # the code after the yield, continuing at `target`
            def yb2(kg, y):
                after_yield[kind] = kg.nxt
                d = self.g.new('yield-dummy', y, nf)
                d.succ.append((kg.nxt, 'n'))
                return d.id
            kk = K(nxt=target, exc=k.exc, ret=target, brk=None, cont=None)
            self.function_body(tgt.func, nf, kk, yb2)
            if kind not in after_yield:
                raise AnalysisError('context manager %s has no yield' %
                                    tgt.func.qualname)
            return after_yield[kind]

        ret = flavour('ret', k.ret) if has_ret and k.ret is not None else k.ret
        brk = flavour('brk', k.brk) if has_brk and k.brk is not None else k.brk
        cont = flavour('cont', k.cont) if has_cont and k.cont is not None \
            else k.cont

        def yb_main(kg, y):
            kb = K(nxt=kg.nxt, exc=kg.exc, ret=ret, brk=brk, cont=cont)
            body = build_inner(kb)
            b = self.g.new('withbind', s, fr, {'item': item, 'yield': y,
                                                'genframe': nf})
            b.succ.append((body, 'n'))
            return b.id

        cr = self.g.new('callret', call, nf, {'target': tgt, 'with': True})
        cr.succ.append((k.nxt, 'n'))
        kk = K(nxt=cr.id, exc=k.exc, ret=cr.id, brk=None, cont=None)
        body = self.function_body(tgt.func, nf, kk, yb_main)
        c = self.g.new('call', call, nf, {'target': tgt, 'with': True})
        c.succ.append((body, 'n'))
        return c.id

    # ------------------------------------------------------ call resolution

    def local_names(self, func):
        cache = getattr(func, '_locals', None)
        if cache is None:
            cache = set(func.params)
            for n in walk_local(func.node):
                if isinstance(n, ast.Name) and isinstance(n.ctx, ast.Store):
                    cache.add(n.id)
            func._locals = cache
        return cache

    def local_defs(self, func):
        """local name -> list of value exprs assigned (None = unknown)."""
        cache = getattr(func, '_local_defs', None)
        if cache is None:
            cache = {}
            for n in walk_local(func.node):
                if isinstance(n, ast.Assign):
                    for t in n.targets:
                        if isinstance(t, ast.Name):
                            cache.setdefault(t.id, []).append(n.value)
                        elif isinstance(t, (ast.Tuple, ast.List)):
                            for e in ast.walk(t):
                                if isinstance(e, ast.Name):
                                    cache.setdefault(e.id, []).append(None)
                elif isinstance(n, (ast.AugAssign, ast.AnnAssign)):
                    if isinstance(n.target, ast.Name):
                        cache.setdefault(n.target.id, []).append(None)
                elif isinstance(n, (ast.For, ast.comprehension)):
                    for e in ast.walk(n.target):
                        if isinstance(e, ast.Name):
                            cache.setdefault(e.id, []).append(None)
                elif isinstance(n, ast.With):
                    for it in n.items:
                        if it.optional_vars is not None:
                            for e in ast.walk(it.optional_vars):
                                if isinstance(e, ast.Name):
                                    cache.setdefault(e.id, []).append(
                                        ('with', it.context_expr))
                elif isinstance(n, ast.ExceptHandler) and n.name:
                    cache.setdefault(n.name, []).append(None)
                elif isinstance(n, (ast.FunctionDef, ast.AsyncFunctionDef,
                                    ast.ClassDef)):
                    cache.setdefault(n.name, []).append(None)
                elif isinstance(n, ast.NamedExpr):
                    cache.setdefault(n.target.id, []).append(n.value)
                elif isinstance(n, (ast.Import, ast.ImportFrom)):
                    for a in n.names:
                        cache.setdefault((a.asname or a.name).split('.')[0],
                                         []).append(None)
            func._local_defs = cache
        return cache

    def canon(self, expr, fr, _depth=0):
        """Canonical access path of a Name/Attribute chain in frame `fr`:
        ('self', attr, ...) relative to the *root* frame's self where possible,
        ('@qualified.name',) for module-level objects,
        ('%local', name, ...) for other locals, ('%param', name, ...) for
        parameters of the root frame."""
        dn = dotted(expr) if not isinstance(expr, tuple) else expr
        if dn is None or _depth > 10:
            return None
        f = fr.func
        head, rest = dn[0], tuple(mangle(f.cls, a) for a in dn[1:])
        if f.params and head == f.params[0] and f.cls is not None and \
                not f.is_static and head == 'self':
            return self.norm_self(fr.self_path + rest, fr)
        if self.free_self(head, fr):
            return self.norm_self(fr.self_path + rest, fr)
        if head in fr.bindings and head not in self.reassigned(f):
            e, pf, how = fr.bindings[head]
            if how == 'self' and f.cls is None:
                # module function used as a method (load = load_current)
                return self.norm_self(fr.self_path + rest, fr)
            if e is not None and pf is not None:
                base = self.canon(e, pf, _depth + 1)
                if base is not None:
                    return self.norm_self(base + rest, fr)
            if how == 'default':
                return ('%default', head) + rest
            return ('%arg', head) + rest
        if head in f.params:
            if fr.parent is None:
                return ('%param', head) + rest
            return ('%param', head) + rest
        defs = self.local_defs(f).get(head)
        if defs is not None:
            if len(defs) == 1 and defs[0] is not None and \
                    not isinstance(defs[0], tuple):
                base = self.canon(defs[0], fr, _depth + 1)
                if base is not None and (base[0] in ('self', '%param')
                                         or base[0].startswith('@')):
                    return self.norm_self(base + rest, fr)
            return ('%local', head) + rest
        if f.outer is not None:
            # closure variable of a nested function
            return ('%free', head) + rest
        q = self.prog.qualify(f.module, (head,))
        return ('@' + q,) + rest

    def free_self(self, head, fr):
        """`self` of the enclosing method, used as a free variable inside a
        nested function (closure) analysed in the method's class context."""
        f = fr.func
        return (head == 'self' and f.outer is not None and
                fr.cls is not None and head not in f.params and
                head not in self.local_defs(f) and
                f.outer.params[:1] == ['self'])

    def reassigned(self, func):
        return self.local_defs(func).keys()

    def norm_self(self, path, fr):
        """Follow bound-method aliases stored on self
        (self._commit_lock_release = self._commit_lock.release)."""
        if len(path) >= 2 and path[0] == 'self':
            cls = self.g.root.cls if self.g.root else None
            if cls is not None and len(path) == 2:
                facts = self.prog.self_attr_facts(cls).get(path[1], [])
                al = {p for kind, p, f, n in facts if kind == 'alias'}
                if len(al) == 1 and len(facts) == 1:
                    return tuple(next(iter(al)))
        return path

    def lock_path(self, expr, fr):
        """Canonical path if `expr` denotes a lock object, else None."""
        p = self.canon(expr, fr) if dotted(expr) else None
        if p is None:
            return None
        if self.path_type(p, fr) in ('lock:Lock', 'lock:RLock',
                                     'lock:Condition'):
            return p
        if p[-1] in ('_lock', '_commit_lock', '_cond') and \
                p[0] in ('self', '%param', '%local', '%free'):
            return p
        return None

    def path_type(self, path, fr):
        """Static type of the object at canonical `path`."""
        if not path:
            return None
        best = None
        for a in fr.chain():
            sp = a.self_path
            if a.cls is not None and tuple(path[:len(sp)]) == tuple(sp) and \
                    (best is None or len(sp) > len(best[0])):
                best = (sp, a.cls)
        if best is None:
            if path[0] == '%local' and len(path) >= 2:
                t = self.local_type(path[1], fr)
                rest = path[2:]
            else:
                return None
        else:
            t = best[1]
            rest = path[len(best[0]):]
        for a in rest:
            if not isinstance(t, ClassInfo):
                return None
            t = attr_type(self.prog, t, a)
        return t

    def local_type(self, name, fr):
        defs = self.local_defs(fr.func).get(name)
        if defs and all(d is None for d in defs) and fr.cls is not None:
            # loop variable over a collection with a frozen element type
            for n in walk_local(fr.func.node):
                if isinstance(n, ast.For) and isinstance(n.target, ast.Name) \
                        and n.target.id == name:
                    dn = dotted(n.iter)
                    if dn and len(dn) == 2 and dn[0] == 'self':
                        t = element_type(self.prog, fr.cls, dn[1])
                        if t is not None:
                            return t
        if defs and len(defs) == 1 and isinstance(defs[0], ast.Call):
            dn = dotted(defs[0].func)
            obj = self.prog.resolve_dotted(fr.func.module, dn) if dn else None
            if isinstance(obj, ClassInfo):
                return obj
        return None

    def frame_cls_for(self, self_path, fr):
        if self_path == fr.self_path:
            return fr.cls
        t = self.path_type(self_path, fr)
        return t if isinstance(t, ClassInfo) else None

    def resolve_call(self, call, fr):
        func = call.func
        prog = self.prog
        f = fr.func
        # super().m(...)
        if isinstance(func, ast.Attribute) and isinstance(func.value, ast.Call) \
                and isinstance(func.value.func, ast.Name) \
                and func.value.func.id == 'super' and fr.cls is not None \
                and f.cls is not None:
            mro = prog.mro(fr.cls)
            if f.cls in mro:
                for k in mro[mro.index(f.cls) + 1:]:
                    if isinstance(k, ClassInfo) and func.attr in k.methods:
                        return Target(k.methods[func.attr], fr.cls,
                                      fr.self_path)
            return None
        dn = dotted(func)
        if dn is None:
            return None
        dn = (dn[0],) + tuple(mangle(f.cls, a) for a in dn[1:])
        head = dn[0]
        is_self = (f.params and head == f.params[0] and f.cls is not None
                   and not f.is_static and not f.is_classmethod) or \
            self.free_self(head, fr)
        if not is_self and head in fr.bindings and \
                fr.bindings[head][2] == 'self' and f.cls is None:
            is_self = True     # module function bound as a method
        if is_self and fr.cls is not None:
            if len(dn) == 2:
                r = prog.find_attr(fr.cls, dn[1])
                if r is not None and isinstance(r[0], FunctionInfo):
                    m = r[0]
                    if m.is_static:
                        return Target(m, fr.cls, fr.self_path,
                                      bind_self=False, kind='static')
                    return Target(m, fr.cls, fr.self_path)
                return None
            if len(dn) == 3:
                t = attr_type(prog, fr.cls, dn[1])
                if t is None:
                    # ambiguous over the class, but assigned from one
                    # constructor in this very function
                    cands = set()
                    for n in walk_local(f.node):
                        if isinstance(n, ast.Assign) and any(
                                dotted(x) == (head, dn[1])
                                for x in n.targets) and isinstance(
                                    n.value, ast.Call):
                            cn = dotted(n.value.func)
                            o = prog.resolve_dotted(f.module, cn) if cn \
                                else None
                            cands.add(o if isinstance(o, ClassInfo) else None)
                    if len(cands) == 1 and None not in cands:
                        t = cands.pop()
                if isinstance(t, ClassInfo):
                    r = prog.find_method(t, dn[2])
                    if r is not None:
                        return Target(r[0], t, fr.self_path + (dn[1],))
                return None
            return None
        if head in self.local_names(f):
            # local object of a known class: p = FileStoragePacker(...)
            if len(dn) == 2:
                t = self.local_type(head, fr)
                if isinstance(t, ClassInfo):
                    r = prog.find_method(t, dn[1])
                    if r is not None:
                        return Target(r[0], t, ('%local', head))
                # parameter bound to the caller's self (packer(storage, ...))
                if head in fr.bindings and head not in self.reassigned(f):
                    e, pf, how = fr.bindings[head]
                    if e is not None and pf is not None:
                        base = self.canon(e, pf)
                        if base is not None and base[0] == 'self':
                            t = self.path_type(base, pf)
                            if isinstance(t, ClassInfo):
                                r = prog.find_method(t, dn[1])
                                if r is not None:
                                    return Target(r[0], t, base)
            return None
        obj = prog.resolve_dotted(f.module, dn)
        if isinstance(obj, FunctionInfo):
            if obj.cls is None:
                return Target(obj, None, None, bind_self=False, kind='function')
            # Class.m(self, ...)
            if fr.cls is not None and obj.cls in prog.mro(fr.cls) and \
                    call.args and isinstance(call.args[0], ast.Name) and \
                    f.params and call.args[0].id == f.params[0]:
                return Target(obj, fr.cls, fr.self_path, bind_self=False,
                              kind='unbound')
            return None
        return None

    # -------------------------------------------------------- may-raise

    def call_is_nonraising(self, call, fr):
        dn = dotted(call.func)
        if dn is None:
            return False
        if len(dn) == 1 and dn[0] in NONRAISING_BUILTINS and \
                dn[0] not in self.local_names(fr.func):
            return True
        if len(dn) == 1 and dn[0] == 'getattr' and len(call.args) == 3:
            return True
        if dn[:2] == ('os', 'path') and len(dn) == 3 and dn[2] in (
                'exists', 'join', 'dirname', 'basename', 'abspath', 'isdir',
                'isfile', 'split', 'splitext', 'normpath', 'lexists') and \
                'os' not in self.local_names(fr.func):
            return True
        last = dn[-1]
        if len(dn) >= 2:
            if last in NONRAISING_METHODS:
                p = self.canon(call.func.value, fr)
                if p is not None and (
                        self.lock_path(call.func.value, fr) is not None
                        or p[-1] in ('logger', 'log', 'logging')
                        or p[0].endswith('.logger') or p[0].endswith('.log')
                        or p[0] == '@logging'):
                    return True
            if last in CONTAINER_NONRAISING:
                p = self.canon(call.func.value, fr)
                if p is not None and p[0] == 'self' and len(p) == 2 and \
                        self.g.root.cls is not None:
                    facts = self.prog.self_attr_facts(self.g.root.cls).get(
                        p[1], [])
                    if self.container_field(facts):
                        return True
        p = self.canon(call.func, fr)
        if p is not None and len(p) >= 2 and p[-1] in ('acquire', 'release') \
                and self.lock_path_from_canon(p[:-1], fr):
            return True
        return False

    @staticmethod
    def container_field(facts):
        """Every assignment of the field is a builtin container (or None)."""
        return bool(facts) and all(
            kind == 'other' and pl is not None and (
                is_builtin_container(pl) or (
                    isinstance(pl, ast.Constant) and pl.value is None))
            for kind, pl, f, n in facts) and any(
            is_builtin_container(pl) for kind, pl, f, n in facts)

    def lock_path_from_canon(self, p, fr):
        if self.path_type(p, fr) in ('lock:Lock', 'lock:RLock',
                                     'lock:Condition'):
            return True
        return p[-1] in ('_lock', '_commit_lock', '_cond')

    def may_raise(self, exprs, fr):
        for e in exprs:
            if e is None:
                continue
            for n in ast.walk(e):
                if isinstance(n, ast.Call):
                    if not self.call_is_nonraising(n, fr):
                        return True
                elif isinstance(n, ast.Subscript):
                    if isinstance(n.ctx, ast.Store) and dotted(n.value) and \
                            self.g.root.cls is not None:
                        p = self.canon(n.value, fr)
                        if p is not None and p[0] == 'self' and len(p) == 2 \
                                and self.container_field(
                                    self.prog.self_attr_facts(
                                        self.g.root.cls).get(p[1], [])):
                            continue    # d[k] = v on a builtin dict field
                    return True
                elif isinstance(n, (ast.Delete, ast.Await, ast.Yield,
                                    ast.YieldFrom)):
                    return True
                elif isinstance(n, ast.Assign) and any(
                        isinstance(t, (ast.Tuple, ast.List))
                        for t in n.targets):
                    if not isinstance(n.value, (ast.Tuple, ast.List)):
                        return True
                elif isinstance(n, (ast.Import, ast.ImportFrom)):
                    return True
        return False


def is_builtin_container(expr):
    if isinstance(expr, (ast.List, ast.Dict, ast.Set)):
        return True
    if isinstance(expr, ast.Call) and isinstance(expr.func, ast.Name) and \
            expr.func.id in ('set', 'dict', 'list') :
        return True
    return False


def const_truth(test):
    if isinstance(test, ast.Constant):
        return bool(test.value)
    return None


def scan_jumps(stmts):
    """(has return, has break, has continue) in a block; break/continue
    inside nested loops do not count."""
    has = [False, False, False]

    def visit(n, in_loop):
        if isinstance(n, (ast.FunctionDef, ast.AsyncFunctionDef, ast.ClassDef,
                          ast.Lambda)):
            return
        if isinstance(n, ast.Return):
            has[0] = True
        elif isinstance(n, ast.Break) and not in_loop:
            has[1] = True
        elif isinstance(n, ast.Continue) and not in_loop:
            has[2] = True
        loop = in_loop or isinstance(n, (ast.For, ast.While, ast.AsyncFor))
        for c in ast.iter_child_nodes(n):
            visit(c, loop)

    for s in stmts:
        visit(s, False)
    return tuple(has)
