"""Lockset analysis (A5): the set of locks definitely held at a node, computed
path-wise over the inlined CFG of an entry point.  Lock identities are
canonical paths rooted at the analysed object's `self`; the file pool's writer
side is the pseudo-lock POOL_WRITE (held between `writing = True` and
`writing = False` of the inlined FilePool.write_lock)."""

import ast

from .flow import PRUNE, Violation, explore, path_ends, path_is, store_value

POOL_WRITE = ('self', '_files', '<write side>')


def lock_ops(F, node):
    """[(+1|-1, lock path)] for the node."""
    out = []
    if node.kind == 'acq':
        out.append((+1, tuple(node.info['lock'])))
    elif node.kind == 'rel':
        out.append((-1, tuple(node.info['lock'])))
    for op in F.ops(node):
        if op.kind == 'call' and op.path is not None and len(op.path) >= 2:
            if op.path[-1] == 'acquire' and op.path[-2] in (
                    '_lock', '_commit_lock', '_cond'):
                out.append((+1, tuple(op.path[:-1])))
            elif op.path[-1] == 'release' and op.path[-2] in (
                    '_lock', '_commit_lock', '_cond'):
                out.append((-1, tuple(op.path[:-1])))
        if op.kind == 'store' and path_ends(op.path, ('_files', 'writing')):
            v = store_value(op)
            if isinstance(v, ast.Constant):
                out.append((+1 if v.value else -1, POOL_WRITE))
    return out


def step_held(F, node, held, lab):
    """held: frozenset of (lock path, count) pairs -> new held."""
    ops = lock_ops(F, node)
    if not ops:
        return held
    d = dict(held)
    for delta, lock in ops:
        if lock == POOL_WRITE and lab == 'e':
            continue
        c = d.get(lock, 0) + delta
        if lock == POOL_WRITE:
            c = min(max(c, 0), 1)
        if c <= 0:
            d.pop(lock, None)
        else:
            d[lock] = c
    return frozenset(d.items())


def held_locks(held):
    return {l for l, c in held}


def explore_locksets(g, F, check, init=frozenset()):
    """check(node, set of held lock paths) -> None | message."""
    def edge(node, st, lab, tgt):
        return step_held(F, node, st, lab)

    def at(node, st):
        m = check(node, held_locks(st))
        if m:
            return Violation(m)
        return st

    return explore(g, init, at=at, edge=edge)


def lock_delta(F, node, lock=('self', '_lock')):
    """Net change of the nesting level of `lock` caused by `node` (with-form,
    explicit acquire()/release() and bound-method aliases alike)."""
    d = 0
    for delta, l in lock_ops(F, node):
        if tuple(l) == tuple(lock):
            d += delta
    return d
