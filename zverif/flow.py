"""Path exploration over the CFG with a finite abstract state (typestate,
must-pass-through, ordering and guard-dominance rules are all instances), plus
the primitive operations (`ops`) a node performs, expressed over canonical
access paths (DESIGN.md sections 2.3, 2.4)."""

import ast
from collections import deque

from .cfg import calls_in_order, header_exprs
from .model import dotted


class Violation:
    def __init__(self, message, node=None):
        self.message = message
        self.node = node
        self.path = None
        self.state = None

    def __repr__(self):
        return '<Violation %s at %r>' % (self.message, self.node)


PRUNE = object()


class Soft:
    """A violation that does not stop the exploration of the path."""

    def __init__(self, violation, state):
        self.violation = violation
        self.state = state


def explore(g, init, at=None, edge=None, start=None, max_states=400000,
            base_exceptions=False):
    """Breadth-first exploration of (node, abstract state) pairs.

    at(node, state)          -> new state | Violation | PRUNE   (node effect)
    edge(node, state, label, target) -> new state | PRUNE        (branch taken)

    Returns (violations, stats).  Every violation carries a shortest witness
    path (list of node ids from the start node)."""
    start = g.entry if start is None else start
    seen = {}
    q = deque()
    first = (start, init)
    seen[first] = None
    q.append(first)
    violations = []
    reported = set()
    while q:
        cur = q.popleft()
        nid, st = cur
        node = g.nodes[nid]
        st2 = at(node, st) if at is not None else st
        if isinstance(st2, Soft):
            v = st2.violation
            key = (v.message, nid)
            if key not in reported:
                reported.add(key)
                v.node = node
                v.path = _path(seen, cur)
                v.state = st
                violations.append(v)
            st2 = st2.state
        if isinstance(st2, Violation):
            key = (st2.message, nid)
            if key not in reported:
                reported.add(key)
                st2.node = node
                st2.path = _path(seen, cur)
                st2.state = st
                violations.append(st2)
            continue
        if st2 is PRUNE:
            continue
        for tgt, lab in node.succ:
            if lab == 'eb':
                # taken only by BaseExceptions that are not Exceptions
                if not base_exceptions:
                    continue
                lab = 'e'
            st3 = st2
            if edge is not None:
                st3 = edge(node, st2, lab, g.nodes[tgt])
                if st3 is PRUNE:
                    continue
                if isinstance(st3, Violation):
                    key = (st3.message, nid, lab)
                    if key not in reported:
                        reported.add(key)
                        st3.node = node
                        st3.path = _path(seen, cur)
                        st3.state = st2
                        violations.append(st3)
                    continue
            nxt = (tgt, st3)
            if nxt not in seen:
                seen[nxt] = cur
                q.append(nxt)
                if len(seen) > max_states:
                    from . import AnalysisError
                    raise AnalysisError(
                        'state space of %s exceeds %d' % (
                            g.root.func.qualname, max_states))
    return violations, {'pairs': len(seen),
                        'nodes': len({n for n, _ in seen})}


def _path(seen, cur):
    out = []
    while cur is not None:
        out.append(cur[0])
        cur = seen[cur]
    out.reverse()
    return out


def witness(g, path, limit=14):
    """Human-readable rendering of a witness path."""
    lines = []
    last = None
    for i, nid in enumerate(path):
        n = g.nodes[nid]
        if n.kind in ('entry', 'callret', 'loophead', 'withbind',
                      'yield-dummy', 'def'):
            continue
        lab = ''
        if i + 1 < len(path):
            for t, l in n.succ:
                if t == path[i + 1]:
                    lab = l
                    break
        txt = '%s %s%s' % (n.where(), n.text(70),
                           (' [%s]' % lab) if lab not in ('n', '') else '')
        if txt != last:
            lines.append(txt)
        last = txt
    if len(lines) > limit:
        head = lines[:limit // 2]
        tail = lines[-(limit - limit // 2):]
        lines = head + ['... (%d steps) ...' % (len(lines) - limit)] + tail
    return lines


# --------------------------------------------------------------------- ops

class Op:
    __slots__ = ('kind', 'path', 'ast', 'stmt', 'node', 'inlined')

    def __init__(self, kind, path, astnode, stmt, node, inlined=False):
        self.inlined = inlined
        self.kind = kind      # call | store | setitem | del | delitem | aug
        self.path = path      # canonical tuple or None
        self.ast = astnode
        self.stmt = stmt
        self.node = node

    def __repr__(self):
        return '<%s %s>' % (self.kind, '.'.join(self.path) if self.path
                            else '?')


OP_KINDS = ('stmt', 'test', 'return', 'raise', 'assert', 'foriter',
            'withenter', 'for')


class Facts:
    """Per-graph cache of node operations."""

    def __init__(self, g, builder):
        self.g = g
        self.b = builder
        self._ops = {}

    def canon(self, expr, fr):
        return self.b.canon(expr, fr)

    def ops(self, node):
        r = self._ops.get(node.id)
        if r is None:
            r = self._ops[node.id] = self._compute(node)
        return r

    def _compute(self, node):
        out = []
        if node.kind not in OP_KINDS or node.ast is None:
            return out
        fr = node.frame
        s = node.ast
        if node.kind == 'for':
            for t in _targets(s.target):
                self._store(out, t, s, node, fr)
            return out
        if node.kind == 'withenter':
            exprs = [node.info['item'].context_expr]
        elif node.kind in ('test', 'foriter'):
            exprs = [s]
        else:
            exprs = header_exprs(s)
        for e in exprs:
            if e is None:
                continue
            for c in calls_in_order(e):
                self._positionalise(c, fr)
                out.append(Op('call', self.b.canon(c.func, fr)
                              if dotted(c.func) else None, c, s, node,
                              inlined=(id(c), fr.id) in self.b.inlined))
        if isinstance(s, ast.Assign):
            for t in s.targets:
                for tt in _targets(t):
                    self._store(out, tt, s, node, fr)
        elif isinstance(s, ast.AugAssign):
            self._store(out, s.target, s, node, fr, kind='aug')
        elif isinstance(s, ast.AnnAssign) and s.value is not None:
            self._store(out, s.target, s, node, fr)
        elif isinstance(s, ast.Delete):
            for t in s.targets:
                if isinstance(t, ast.Subscript):
                    out.append(Op('delitem', self._c(t.value, fr), t, s, node))
                else:
                    out.append(Op('del', self._c(t, fr), t, s, node))
        if node.kind == 'withenter':
            v = node.info['item'].optional_vars
            if v is not None:
                for tt in _targets(v):
                    self._store(out, tt, s, node, fr)
        return out

    def _positionalise(self, call, fr):
        """`m(p1=a, p2=b)` also gets `a, b` as positional arguments when
        the callee is known and the keywords name its leading parameters in
        order of position (the rules look at arguments by position; the two
        spellings are the same call).  Done in place, once per call node."""
        if not call.keywords or getattr(call, '_zv_pos', False) or any(
                isinstance(a, ast.Starred) for a in call.args) or any(
                    kw.arg is None for kw in call.keywords):
            return
        call._zv_pos = True
        try:
            tgt = self.b.resolve_call(call, fr)
        except Exception:
            tgt = None
        if tgt is None:
            return
        f = tgt.func
        params = list(f.params)
        nargs = len(call.args)
        if tgt.bind_self and params and not f.is_static:
            params = params[1:]
        elif tgt.kind == 'unbound' and params:
            params = params[1:]
            nargs -= 1
        if f.vararg:
            return
        kws = {kw.arg: kw for kw in call.keywords}
        for i in range(max(nargs, 0), len(params)):
            kw = kws.get(params[i])
            if kw is None:
                break
            # (the keyword stays: rules that look a parameter up by name
            # find it; a parameter bound twice to one expression is harmless
            # to the frames built from the call)
            call.args.append(kw.value)

    def _c(self, e, fr):
        return self.b.canon(e, fr) if dotted(e) else None

    def _store(self, out, t, s, node, fr, kind='store'):
        if isinstance(t, ast.Subscript):
            out.append(Op('setitem' if kind == 'store' else 'augitem',
                          self._c(t.value, fr), t, s, node))
        elif isinstance(t, ast.Starred):
            self._store(out, t.value, s, node, fr, kind)
        elif isinstance(t, ast.Name):
            out.append(Op(kind, ('%local', t.id), t, s, node))
        else:
            out.append(Op(kind, self._c(t, fr), t, s, node))

    # convenient queries ---------------------------------------------------

    def calls(self, node, *suffixes):
        """Calls in `node` whose canonical path ends with one of `suffixes`
        (each a tuple)."""
        out = []
        for op in self.ops(node):
            if op.kind == 'call' and op.path is not None:
                for suf in suffixes:
                    if tuple(op.path[-len(suf):]) == tuple(suf):
                        out.append(op)
                        break
        return out

    def all_ops(self, reachable_only=True):
        ids = self.g.reachable() if reachable_only else range(len(self.g.nodes))
        for i in sorted(ids):
            for op in self.ops(self.g.nodes[i]):
                yield op


def _targets(t):
    if isinstance(t, (ast.Tuple, ast.List)):
        for e in t.elts:
            yield from _targets(e)
    else:
        yield t


def path_is(path, *alts):
    return path is not None and any(tuple(path) == tuple(a) for a in alts)


def path_ends(path, *sufs):
    return path is not None and any(
        tuple(path[-len(s):]) == tuple(s) for s in sufs)


# ------------------------------------------------------------ predicates

_MIRROR_OP = {ast.Eq: ast.Eq, ast.NotEq: ast.NotEq, ast.Is: ast.Is,
              ast.IsNot: ast.IsNot, ast.Lt: ast.Gt, ast.Gt: ast.Lt,
              ast.LtE: ast.GtE, ast.GtE: ast.LtE}


def cmp_sides(e):
    """Both readings of a single-operator comparison: [(left, op class,
    right), (right, mirrored op class, left)]; [] if `e` is not one.  Rules
    match on these so that `a < b` and `b > a` are the same to them."""
    if isinstance(e, ast.Compare) and len(e.ops) == 1:
        op = type(e.ops[0])
        out = [(e.left, op, e.comparators[0])]
        if op in _MIRROR_OP:
            out.append((e.comparators[0], _MIRROR_OP[op], e.left))
        return out
    return []


def _cannot_fall_through(block):
    return bool(block) and isinstance(block[-1], (ast.Return, ast.Raise,
                                                  ast.Continue, ast.Break))


def if_branches(ifnode, following=()):
    """[(atoms implied on entering the block, block)] for the two blocks of
    an `if`: rules that look for "the block executed when <atom> is
    true/false" use this, so that `if c: A else: B` and `if not c: B else: A`
    are the same to them.  `following` = the statements after the `if` in
    its block: when one arm cannot fall through (guard clause), they are
    what the other arm continues with."""
    body, orelse = list(ifnode.body), list(ifnode.orelse)
    if following:
        if _cannot_fall_through(ifnode.body):
            orelse = orelse + list(following)
        elif _cannot_fall_through(ifnode.orelse):
            body = body + list(following)
    return [(implied_atoms(ifnode.test, 'T'), body),
            (implied_atoms(ifnode.test, 'F'), orelse)]


def ifs_with_following(fnode):
    """(if statement, statements that follow it in its block) for every
    `if` of a function (nested functions excluded)."""
    out = []

    def walk(block):
        for i, s_ in enumerate(block):
            if isinstance(s_, (ast.FunctionDef, ast.AsyncFunctionDef,
                               ast.ClassDef)):
                continue
            if isinstance(s_, ast.If):
                out.append((s_, block[i + 1:]))
            for f_ in ('body', 'orelse', 'finalbody'):
                b_ = getattr(s_, f_, None)
                if isinstance(b_, list) and b_ and isinstance(b_[0],
                                                              ast.stmt):
                    walk(b_)
            if isinstance(s_, ast.Try):
                for h in s_.handlers:
                    walk(h.body)
    walk(fnode.body)
    return out


def strip_not(test):
    """-> (inner expr, polarity) with leading `not`s removed."""
    pol = True
    while isinstance(test, ast.UnaryOp) and isinstance(test.op, ast.Not):
        test = test.operand
        pol = not pol
    return test, pol


def identity_test(test):
    """If `test` compares two expressions for identity/equality, return
    (left, right, same) where same=True means the test is true when they are
    the same object.  Handles `a is b`, `a is not b`, `not (a is b)`,
    `a == b`, `a != b`."""
    inner, pol = strip_not(test)
    if isinstance(inner, ast.Compare) and len(inner.ops) == 1:
        op = inner.ops[0]
        if isinstance(op, (ast.Is, ast.Eq)):
            return inner.left, inner.comparators[0], pol
        if isinstance(op, (ast.IsNot, ast.NotEq)):
            return inner.left, inner.comparators[0], not pol
    return None


def truth_test(test):
    """`x` / `not x` / `x is None` / `x is not None` on a simple expression:
    -> (expr, truthy_when_test_true, none_test)."""
    inner, pol = strip_not(test)
    if isinstance(inner, ast.Compare) and len(inner.ops) == 1 and \
            isinstance(inner.comparators[0], ast.Constant) and \
            inner.comparators[0].value is None:
        if isinstance(inner.ops[0], ast.Is):
            return inner.left, not pol, True
        if isinstance(inner.ops[0], ast.IsNot):
            return inner.left, pol, True
    return inner, pol, False


RAISING_KINDS = ('stmt', 'test', 'return', 'raise', 'assert', 'foriter',
                 'for', 'withenter', 'precond')


def raising_node(g, path):
    """The node on a witness path ending at the exceptional exit whose
    exception edge starts the final unwinding."""
    for i in range(len(path) - 2, -1, -1):
        n = g.nodes[path[i]]
        nxt = path[i + 1]
        lab = None
        for t, l in n.succ:
            if t == nxt:
                lab = l
                break
        if lab in ('e', 'eb') and n.kind in RAISING_KINDS:
            return n
    return g.nodes[path[-1]]


def last_real_node(g, path):
    for i in range(len(path) - 1, -1, -1):
        n = g.nodes[path[i]]
        if n.kind in RAISING_KINDS:
            return n
    return g.nodes[path[-1]]


def store_value(op):
    """Value expression of a plain `x = value` store op (None for tuple
    unpacking / augmented assignment)."""
    s = op.stmt
    if isinstance(s, ast.Assign) and op.kind == 'store':
        for t in s.targets:
            if t is op.ast:
                return s.value
    return None


def is_none_const(e):
    return isinstance(e, ast.Constant) and e.value is None


def provenance(expr, fr, F, _seen=None, depth=0, _calls=None):
    """Flow-insensitive def-use closure of an expression inside one function
    (analysis A8): the set of sources it may derive from --
      ('param', name), ('path', canonical path), ('call', canonical path),
      ('const', value), ('attr', name)  for attribute names read on the way.
    Local names are expanded through *all* their definitions."""
    out = set()
    if expr is None:
        return out
    seen = _seen if _seen is not None else set()
    calls_seen = _calls if _calls is not None else set()
    f = fr.func
    defs = F.b.local_defs(f)
    for n in ast.walk(expr):
        if isinstance(n, ast.Constant):
            out.add(('const', n.value if isinstance(
                n.value, (str, bytes, int, type(None), bool)) else repr(n.value)))
        elif isinstance(n, ast.Call) and dotted(n.func):
            p = F.b.canon(n.func, fr)
            if p is not None:
                out.add(('call', p))
            if depth < 3:
                tgt = F.b.resolve_call(n, fr)
                if tgt is not None and not tgt.func.is_generator and \
                        not any(a.func is tgt.func for a in fr.chain()) and \
                        tgt.func.qualname not in calls_seen:
                    calls_seen.add(tgt.func.qualname)
                    nf = F.b.make_frame(n, tgt, fr)
                    from .model import walk_local as _wl
                    for r in _wl(tgt.func.node):
                        if isinstance(r, ast.Return) and r.value is not None:
                            out |= provenance(r.value, nf, F, None, depth + 1,
                                              calls_seen)
        elif isinstance(n, ast.Attribute):
            out.add(('attr', n.attr))
            if dotted(n):
                p = F.b.canon(n, fr)
                if p is not None and p[0] == 'self':
                    out.add(('path', p))
        elif isinstance(n, ast.Name):
            if n.id in f.params and n.id not in defs:
                out.add(('param', n.id))
                if n.id in fr.bindings and fr.bindings[n.id][1] is not None \
                        and depth < 6:
                    e, pf, how = fr.bindings[n.id]
                    if e is not None:
                        out |= provenance(e, pf, F, None, depth + 1,
                                          calls_seen)
            elif n.id in defs:
                if n.id in f.params:
                    out.add(('param', n.id))
                key = (fr.id, n.id)
                if key in seen:
                    continue
                seen.add(key)
                for d in defs[n.id]:
                    if isinstance(d, tuple):        # ('with', ctx expr)
                        out |= provenance(d[1], fr, F, seen, depth,
                                          calls_seen)
                    elif d is not None:
                        out |= provenance(d, fr, F, seen, depth, calls_seen)
                    else:
                        out |= _unpack_sources(n.id, fr, F, seen, depth,
                                               calls_seen)
            else:
                p = F.b.canon(n, fr)
                if p is not None:
                    out.add(('path', p))
    return out


def _unpack_sources(name, fr, F, seen, depth, calls_seen=None):
    """Definitions through tuple unpacking / for targets / augmented
    assignment: use the right-hand side as a whole."""
    from .model import walk_local
    out = set()
    for n in walk_local(fr.func.node):
        val = None
        tgt = None
        if isinstance(n, ast.Assign):
            for t in n.targets:
                if isinstance(t, (ast.Tuple, ast.List)):
                    tgt, val = t, n.value
        elif isinstance(n, (ast.For, ast.comprehension)):
            tgt, val = n.target, n.iter
        elif isinstance(n, ast.AugAssign):
            tgt, val = n.target, n.value
        if tgt is not None and any(isinstance(e, ast.Name) and e.id == name
                                   for e in ast.walk(tgt)):
            done = False
            if isinstance(n, ast.Assign) and isinstance(val, ast.Call) and \
                    isinstance(tgt, (ast.Tuple, ast.List)) and depth < 3:
                # a, b, c = f(...): element-wise through tuple returns
                idx = [i for i, e in enumerate(tgt.elts)
                       if isinstance(e, ast.Name) and e.id == name]
                t2 = F.b.resolve_call(val, fr)
                if idx and t2 is not None and not t2.func.is_generator and \
                        not any(a.func is t2.func for a in fr.chain()):
                    rets = [r for r in walk_local(t2.func.node)
                            if isinstance(r, ast.Return)]
                    if rets and all(isinstance(r.value, ast.Tuple) and
                                    len(r.value.elts) == len(tgt.elts)
                                    for r in rets):
                        nf = F.b.make_frame(val, t2, fr)
                        cp = F.b.canon(val.func, fr) if dotted(val.func) \
                            else None
                        if cp is not None:
                            out.add(('call', cp))
                        for r in rets:
                            out |= provenance(r.value.elts[idx[0]], nf, F,
                                              None, depth + 1, calls_seen)
                        done = True
            if not done:
                out |= provenance(val, fr, F, seen, depth, calls_seen)
    return out


def prov_has(prov, kind, pred):
    return any(k == kind and pred(v) for k, v in prov)


def implied_atoms(test, label):
    """Atomic facts implied by taking branch `label` ('T'/'F') of `test`:
    a list of (expr, truth).  `a or b` false => both false; `a and b` true
    => both true; `not x` flips."""
    truth = (label == 'T')
    out = []

    def visit(e, t):
        if isinstance(e, ast.UnaryOp) and isinstance(e.op, ast.Not):
            visit(e.operand, not t)
        elif isinstance(e, ast.BoolOp) and isinstance(e.op, ast.Or):
            if not t:
                for v in e.values:
                    visit(v, False)
            else:
                out.append((e, True))
        elif isinstance(e, ast.BoolOp) and isinstance(e.op, ast.And):
            if t:
                for v in e.values:
                    visit(v, True)
            else:
                out.append((e, False))
        else:
            out.append((e, t))

    visit(test, truth)
    return out


class Flags:
    """Light path sensitivity: truthiness of a few tracked simple names /
    self attributes, learnt from branches and literal assignments, used to
    prune infeasible branches.  State is a frozenset of (key, bool)."""

    def __init__(self, F, keyfn):
        self.F = F
        self.keyfn = keyfn      # (expr, frame) -> key or None

    def key(self, e, fr):
        return self.keyfn(e, fr)

    def learn(self, node, st, lab):
        """-> new state or PRUNE for the branch `lab` of test `node`."""
        if node.kind != 'test' or lab not in ('T', 'F'):
            return st
        d = dict(st)
        for e, truth in implied_atoms(node.ast, lab):
            k = None
            val = truth
            if isinstance(e, ast.Name) and e.id in node.frame.bindings and \
                    node.frame.bindings[e.id][2] == 'default' and \
                    isinstance(node.frame.bindings[e.id][0], ast.Constant) \
                    and e.id not in self.F.b.local_defs(node.frame.func):
                # parameter left at its constant default by this call
                if bool(node.frame.bindings[e.id][0].value) != truth:
                    return PRUNE
                continue
            if isinstance(e, ast.Compare) and len(e.ops) == 1 and \
                    isinstance(e.comparators[0], ast.Constant) and \
                    e.comparators[0].value is None:
                # `x is None` says x is falsy; `x is not None` says nothing
                # about truthiness in general -- but for the flags we track
                # (None / object) it does.
                k = self.key(e.left, node.frame)
                if isinstance(e.ops[0], ast.Is):
                    val = not truth
                elif isinstance(e.ops[0], ast.IsNot):
                    val = truth
                else:
                    k = None
            else:
                k = self.key(e, node.frame)
            if k is None:
                continue
            if k in d and d[k] != val:
                return PRUNE
            d[k] = val
        return frozenset(d.items())

    def assign(self, node, st, lab):
        if lab == 'e':
            return st
        d = None
        for op in self.F.ops(node):
            if op.kind == 'store':
                k = self.key(op.ast, node.frame)
                if k is None:
                    continue
                v = store_value(op)
                if d is None:
                    d = dict(st)
                if isinstance(v, ast.Constant):
                    d[k] = bool(v.value)
                else:
                    d.pop(k, None)
        return st if d is None else frozenset(d.items())

    def value(self, st, key):
        return dict(st).get(key)

    def eval(self, e, st, fr):
        """Evaluate a constant-or-flag expression (`ro and 'rb' or 'r+b'`):
        -> (known, value)"""
        if isinstance(e, ast.Constant):
            return True, e.value
        k = self.key(e, fr)
        if k is not None:
            v = self.value(st, k)
            return (v is not None), v
        if isinstance(e, ast.BoolOp):
            vals = e.values
            if isinstance(e.op, ast.And):
                last = (True, True)
                for v in vals:
                    kn, x = self.eval(v, st, fr)
                    if not kn:
                        return False, None
                    if not x:
                        return True, x
                    last = (kn, x)
                return last
            else:
                last = (True, False)
                for v in vals:
                    kn, x = self.eval(v, st, fr)
                    if not kn:
                        return False, None
                    if x:
                        return True, x
                    last = (kn, x)
                return last
        if isinstance(e, ast.IfExp):
            kn, t = self.eval(e.test, st, fr)
            if not kn:
                return False, None
            return self.eval(e.body if t else e.orelse, st, fr)
        if isinstance(e, ast.UnaryOp) and isinstance(e.op, ast.Not):
            kn, x = self.eval(e.operand, st, fr)
            return kn, (not x) if kn else None
        return False, None


def boundary_classes(fnode, name):
    """Ordering comparisons of anything with the local/parameter `name` in a
    function, each reduced to which side of the boundary equality falls on:
    'excluded' for `x >= name` / `x < name` (and the flipped spellings
    `name <= x`, `name > x`), 'included' for `x > name` / `x <= name`.  The
    class does not change under negation, De Morgan or swapping the sides,
    so it is a property of the boundary and not of its spelling.  Returns a
    list of (class, Compare node)."""
    out = []
    for c in ast.walk(fnode):
        if not isinstance(c, ast.Compare) or len(c.ops) != 1:
            continue
        l, op, r = c.left, type(c.ops[0]), c.comparators[0]
        if op not in (ast.Gt, ast.GtE, ast.Lt, ast.LtE):
            continue
        if isinstance(r, ast.Name) and r.id == name:
            pass
        elif isinstance(l, ast.Name) and l.id == name:
            op = {ast.Gt: ast.Lt, ast.Lt: ast.Gt, ast.GtE: ast.LtE,
                  ast.LtE: ast.GtE}[op]
        else:
            continue
        out.append(('excluded' if op in (ast.GtE, ast.Lt) else 'included', c))
    return out
