"""Source model: modules, symbols, classes, static MRO, attribute types and
callee resolution (DESIGN.md section 2.1).  Pure `ast`; nothing is imported
from the analysed tree."""

import ast
import os

from . import AnalysisError


_MIRROR = {ast.Eq: ast.Eq, ast.NotEq: ast.NotEq, ast.Is: ast.Is,
           ast.IsNot: ast.IsNot, ast.Lt: ast.Gt, ast.Gt: ast.Lt,
           ast.LtE: ast.GtE, ast.GtE: ast.LtE}


class _Normalise(ast.NodeTransformer):
    """Spelling-independent form of the tree the rules look at: a constant
    operand of a comparison is always on the right (`None is x` ->
    `x is None`, `0 < n` -> `n > 0`)."""

    @staticmethod
    def _const(e):
        """a literal, or arithmetic on literals (b'\\xff' * 6)"""
        return all(isinstance(x, (ast.Constant, ast.BinOp, ast.UnaryOp,
                                  ast.operator, ast.unaryop))
                   for x in ast.walk(e))

    def visit_Compare(self, node):
        self.generic_visit(node)
        if len(node.ops) == 1 and type(node.ops[0]) in _MIRROR and \
                self._const(node.left) and not self._const(
                    node.comparators[0]):
            new = ast.Compare(left=node.comparators[0],
                              ops=[_MIRROR[type(node.ops[0])]()],
                              comparators=[node.left])
            return ast.copy_location(new, node)
        return node

    def visit_UnaryOp(self, node):
        # `not a is b` -> `a is not b`, `not a in b` -> `a not in b`,
        # `not a == b` -> `a != b`
        self.generic_visit(node)
        if isinstance(node.op, ast.Not) and isinstance(
                node.operand, ast.Compare) and len(
                    node.operand.ops) == 1 and type(
                        node.operand.ops[0]) in _NEGATE:
            c = node.operand
            new = ast.Compare(left=c.left,
                              ops=[_NEGATE[type(c.ops[0])]()],
                              comparators=c.comparators)
            return ast.copy_location(new, node)
        return node

    def visit_While(self, node):
        self.generic_visit(node)
        if isinstance(node.test, ast.Constant) and node.test.value in (
                1, True):
            node.test = ast.copy_location(ast.Constant(value=True),
                                          node.test)
        return node


_NEGATE = {ast.Is: ast.IsNot, ast.IsNot: ast.Is, ast.In: ast.NotIn,
           ast.NotIn: ast.In, ast.Eq: ast.NotEq, ast.NotEq: ast.Eq}


def _terminal(stmts):
    return bool(stmts) and isinstance(stmts[-1], (ast.Return, ast.Raise,
                                                  ast.Continue, ast.Break))


def _simple_chain(e):
    return isinstance(e, ast.Attribute) and (
        isinstance(e.value, ast.Name) or _simple_chain(e.value))


def _reads_before_any_call(stmt, name):
    """`name` is read exactly once in the simple statement `stmt`, and no
    call completes before that read (evaluation order)."""
    events = []

    def visit(n):
        if isinstance(n, (ast.Lambda, ast.FunctionDef, ast.ClassDef,
                          ast.GeneratorExp, ast.ListComp, ast.SetComp,
                          ast.DictComp)):
            events.append('opaque')
            return
        if isinstance(n, ast.Assign):
            visit(n.value)
            for t in n.targets:
                visit(t)
            return
        if isinstance(n, ast.AugAssign):
            visit(n.target)
            visit(n.value)
            return
        if isinstance(n, ast.Name):
            if n.id == name:
                events.append('read' if isinstance(n.ctx, ast.Load)
                              else 'opaque')
            return
        for c in ast.iter_child_nodes(n):
            visit(c)
        if isinstance(n, (ast.Call, ast.Await, ast.Yield, ast.YieldFrom)):
            events.append('call')

    visit(stmt)
    if events.count('read') != 1 or 'opaque' in events:
        return False
    return 'call' not in events[:events.index('read')]


class _Subst(ast.NodeTransformer):
    def __init__(self, name, value):
        self.name, self.value = name, value

    def visit_Name(self, node):
        if node.id == self.name and isinstance(node.ctx, ast.Load):
            return ast.copy_location(self.value, node)
        return node


def _name_counts(fnode):
    loads, stores = {}, {}
    for n in ast.walk(fnode):
        if isinstance(n, ast.Name):
            d = loads if isinstance(n.ctx, ast.Load) else stores
            d[n.id] = d.get(n.id, 0) + 1
        elif isinstance(n, (ast.Global, ast.Nonlocal)):
            for x in n.names:
                stores[x] = stores.get(x, 0) + 2
        elif isinstance(n, ast.arg):
            stores[n.arg] = stores.get(n.arg, 0) + 2
    return loads, stores


def _inline_single_use_temps(fnode):
    """`t = a.b.c` immediately followed by a simple statement that reads `t`
    once, before any call completes, `t` bound and read nowhere else in the
    function  ->  the statement with `a.b.c` in place of `t`.
    `t = E` immediately followed by `if t:` / `if not t:`, `t` bound and read
    nowhere else  ->  `if E:` / `if not E:`."""
    loads, stores = _name_counts(fnode)
    SIMPLE = (ast.Expr, ast.Assign, ast.AugAssign, ast.Return, ast.Raise,
              ast.Assert, ast.Delete)

    def block(stmts):
        out = []
        i = 0
        while i < len(stmts):
            s = stmts[i]
            nxt = stmts[i + 1] if i + 1 < len(stmts) else None
            if isinstance(s, ast.Assign) and len(s.targets) == 1 and \
                    isinstance(s.targets[0], ast.Name) and \
                    _simple_chain(s.value) and isinstance(nxt, SIMPLE):
                t = s.targets[0].id
                if loads.get(t, 0) == 1 and stores.get(t, 0) == 1 and \
                        _reads_before_any_call(nxt, t):
                    out.append(_Subst(t, s.value).visit(nxt))
                    i += 2
                    continue
            if isinstance(s, ast.Assign) and len(s.targets) == 1 and \
                    isinstance(s.targets[0], ast.Name) and \
                    isinstance(nxt, ast.If):
                # `t = E` / `if t:` (or `if not t:`), t used nowhere else:
                # E is evaluated immediately before the test either way
                t = s.targets[0].id
                tst = nxt.test
                neg = isinstance(tst, ast.UnaryOp) and isinstance(
                    tst.op, ast.Not)
                nm = tst.operand if neg else tst
                if isinstance(nm, ast.Name) and nm.id == t and \
                        loads.get(t, 0) == 1 and stores.get(t, 0) == 1:
                    e = ast.copy_location(s.value, tst)
                    nxt.test = ast.copy_location(
                        ast.UnaryOp(op=ast.Not(), operand=e), tst) \
                        if neg else e
                    out.append(nxt)
                    i += 2
                    continue
            out.append(s)
            i += 1
        return out

    def walk(n):
        for f in ('body', 'orelse', 'finalbody'):
            b = getattr(n, f, None)
            if isinstance(b, list) and b and isinstance(b[0], ast.stmt):
                setattr(n, f, block(b))
        for c in ast.iter_child_nodes(n):
            if not isinstance(c, (ast.FunctionDef, ast.AsyncFunctionDef,
                                  ast.ClassDef, ast.Lambda)):
                walk(c)

    walk(fnode)


def _normalise_blocks(node):
    """Statement-level part of the spelling-independent form:
      * `x = E` immediately followed by `return x`   ->  `return E`
      * `if c: ...; return` / `else: REST`           ->  `if c: ...; return`
        followed by REST (no else after a block that cannot fall through)
      * `t = a.b.c` immediately followed by the only statement that reads
        `t` (see _inline_single_use_temps)           ->  that statement with
        `a.b.c` in place of `t`
    All are applied bottom-up to every block of the module."""
    for child in ast.iter_child_nodes(node):
        _normalise_blocks(child)
    if isinstance(node, (ast.FunctionDef, ast.AsyncFunctionDef)):
        _inline_single_use_temps(node)
    fields = [f for f in ('body', 'orelse', 'finalbody')
              if isinstance(getattr(node, f, None), list) and
              getattr(node, f) and isinstance(getattr(node, f)[0], ast.stmt)]
    for f in fields:
        setattr(node, f, _normalise_block(getattr(node, f), node))


def _normalise_block(stmts, owner):
    out = []
    declared = set()
    for s in stmts:
        if isinstance(s, (ast.Global, ast.Nonlocal)):
            declared |= set(s.names)
    i = 0
    while i < len(stmts):
        s = stmts[i]
        nxt = stmts[i + 1] if i + 1 < len(stmts) else None
        if isinstance(s, ast.Assign) and len(s.targets) == 1 and isinstance(
                s.targets[0], ast.Name) and isinstance(nxt, ast.Return) and \
                isinstance(nxt.value, ast.Name) and \
                nxt.value.id == s.targets[0].id and \
                s.targets[0].id not in declared:
            out.append(ast.copy_location(ast.Return(value=s.value), s))
            i += 2
            continue
        if isinstance(s, ast.If) and s.orelse and _terminal(s.body):
            rest = s.orelse
            s.orelse = []
            out.append(s)
            out.extend(rest)
            i += 1
            continue
        out.append(s)
        i += 1
    return out


class ModuleInfo:
    def __init__(self, name, path, relpath, source):
        self.name = name
        self.path = path
        self.relpath = relpath
        self.source = source
        self.tree = _Normalise().visit(ast.parse(source, filename=path))
        _normalise_blocks(self.tree)
        self.is_package = os.path.basename(path) == '__init__.py'
        self.imports = {}      # local name -> dotted qualified name
        self.functions = {}    # name -> FunctionInfo
        self.classes = {}      # name -> ClassInfo
        self.consts = {}       # name -> ast expr (last module-level assignment)
        self.monkey = []       # (target attribute expr, value expr)

    def __repr__(self):
        return '<module %s>' % self.name


class ClassInfo:
    def __init__(self, module, node, outer=None):
        self.module = module
        self.node = node
        self.name = node.name
        self.qualname = module.name + '.' + node.name
        self.methods = {}      # name -> FunctionInfo (defined in this body)
        self.attrs = {}        # name -> ast expr (class-level assignments)
        self.monkey = {}       # name -> object assigned at module level
        self._mro = None
        self.bases = []        # ClassInfo | External

    def __repr__(self):
        return '<class %s>' % self.qualname


class External:
    """A class we cannot see (Persistent, Exception, FileIO, ...)."""

    def __init__(self, name):
        self.name = name
        self.qualname = name

    def __repr__(self):
        return '<external %s>' % self.name

    def __eq__(self, other):
        return isinstance(other, External) and other.name == self.name

    def __hash__(self):
        return hash(('ext', self.name))


class FunctionInfo:
    def __init__(self, module, node, cls=None, outer=None):
        self.module = module
        self.node = node
        self.name = node.name
        self.cls = cls
        self.outer = outer      # enclosing FunctionInfo for nested defs
        if cls is not None:
            self.qualname = cls.qualname + '.' + node.name
        elif outer is not None:
            self.qualname = outer.qualname + '.<locals>.' + node.name
        else:
            self.qualname = module.name + '.' + node.name
        self.params = [a.arg for a in (node.args.posonlyargs + node.args.args)]
        self.vararg = node.args.vararg.arg if node.args.vararg else None
        self.kwarg = node.args.kwarg.arg if node.args.kwarg else None
        self.kwonly = [a.arg for a in node.args.kwonlyargs]
        self.decorators = list(node.decorator_list)
        self.is_generator = _has_yield(node)
        self.is_contextmanager = False
        self.is_static = False
        self.is_classmethod = False
        self.is_property = False
        self.locked = None      # None | [] | [precondition names]

    @property
    def short(self):
        if self.cls is not None:
            return self.cls.name + '.' + self.name
        return self.qualname.split('.', 1)[-1] if self.outer else self.name

    def __repr__(self):
        return '<function %s>' % self.qualname


def _has_yield(fnode):
    for n in walk_local(fnode):
        if isinstance(n, (ast.Yield, ast.YieldFrom)):
            return True
    return False


def walk_local(fnode):
    """Walk the body of a function without descending into nested
    function/class definitions or lambdas."""
    stack = list(ast.iter_child_nodes(fnode))
    while stack:
        n = stack.pop()
        yield n
        if isinstance(n, (ast.FunctionDef, ast.AsyncFunctionDef,
                          ast.ClassDef, ast.Lambda)):
            continue
        stack.extend(ast.iter_child_nodes(n))


def mangle(cls, attr):
    """Private name mangling of `__x` inside class `cls`."""
    if cls is not None and attr.startswith('__') and not attr.endswith('__'):
        return '_' + cls.name.lstrip('_') + attr
    return attr


def dotted(expr):
    """Name/Attribute chain -> tuple of names, else None."""
    parts = []
    while isinstance(expr, ast.Attribute):
        parts.append(expr.attr)
        expr = expr.value
    if isinstance(expr, ast.Name):
        parts.append(expr.id)
        return tuple(reversed(parts))
    return None


LOCK_CTORS = {
    'ZODB.utils.Lock': 'Lock', 'ZODB.utils.RLock': 'RLock',
    'ZODB.utils.Condition': 'Condition',
    'threading.Lock': 'Lock', 'threading.RLock': 'RLock',
    'threading.Condition': 'Condition',
}


class Program:
    """All analysed modules of one source tree."""

    def __init__(self, src_root, package='ZODB', include_tests=False):
        self.src_root = src_root
        self.package = package
        self.modules = {}
        self.by_relpath = {}
        self._attr_cache = {}
        self._load(include_tests)
        for m in list(self.modules.values()):
            self._index_module(m)
        for m in list(self.modules.values()):
            self._resolve_bases(m)
        for m in list(self.modules.values()):
            self._apply_monkey(m)

    # ------------------------------------------------------------------ load

    def _load(self, include_tests):
        root = os.path.join(self.src_root, self.package)
        if not os.path.isdir(root):
            raise AnalysisError('no package directory %s' % root)
        for dirpath, dirnames, filenames in os.walk(root):
            dirnames.sort()
            if not include_tests:
                dirnames[:] = [d for d in dirnames
                               if d not in ('tests', 'manual_tests')]
            for fn in sorted(filenames):
                if not fn.endswith('.py'):
                    continue
                if not include_tests and fn in ('tests.py',):
                    continue
                path = os.path.join(dirpath, fn)
                rel = os.path.relpath(path, self.src_root)
                modname = rel[:-3].replace(os.sep, '.')
                if modname.endswith('.__init__'):
                    modname = modname[:-len('.__init__')]
                with open(path, encoding='utf-8') as f:
                    source = f.read()
                try:
                    m = ModuleInfo(modname, path, rel, source)
                except SyntaxError as e:
                    raise AnalysisError('cannot parse %s: %s' % (rel, e))
                self.modules[modname] = m
                self.by_relpath[rel] = m

    def _index_module(self, m):
        pkg = m.name if m.is_package else m.name.rsplit('.', 1)[0]
        for node in self._toplevel(m.tree.body):
            if isinstance(node, ast.Import):
                for a in node.names:
                    if a.asname:
                        m.imports[a.asname] = a.name
                    else:
                        head = a.name.split('.')[0]
                        m.imports[head] = head
            elif isinstance(node, ast.ImportFrom):
                base = node.module or ''
                if node.level:
                    parts = pkg.split('.')
                    if node.level > 1:
                        parts = parts[:-(node.level - 1)]
                    base = '.'.join(parts + ([node.module]
                                             if node.module else []))
                for a in node.names:
                    m.imports[a.asname or a.name] = base + '.' + a.name
            elif isinstance(node, (ast.FunctionDef, ast.AsyncFunctionDef)):
                f = FunctionInfo(m, node)
                self._decorate(m, f)
                m.functions[node.name] = f
            elif isinstance(node, ast.ClassDef):
                c = ClassInfo(m, node)
                m.classes[node.name] = c
                self._index_class(m, c)
            elif isinstance(node, ast.Assign):
                for t in node.targets:
                    if isinstance(t, ast.Name):
                        m.consts[t.id] = node.value
                    elif isinstance(t, ast.Attribute):
                        m.monkey.append((t, node.value))
                    elif isinstance(t, ast.Tuple):
                        pass
            elif isinstance(node, ast.AnnAssign) and node.value is not None:
                if isinstance(node.target, ast.Name):
                    m.consts[node.target.id] = node.value

    def _toplevel(self, body):
        """Module-level statements, looking through `if`/`try` at top level
        (both branches: `if DEBUG: class Lock ... else: from threading ...`;
        the later definition wins, as at run time with the flag off)."""
        for node in body:
            if isinstance(node, ast.If):
                yield from self._toplevel(node.body)
                yield from self._toplevel(node.orelse)
            elif isinstance(node, ast.Try):
                yield from self._toplevel(node.body)
                for h in node.handlers:
                    yield from self._toplevel(h.body)
                yield from self._toplevel(node.orelse)
                yield from self._toplevel(node.finalbody)
            else:
                yield node

    def _index_class(self, m, c):
        for node in c.node.body:
            if isinstance(node, (ast.FunctionDef, ast.AsyncFunctionDef)):
                f = FunctionInfo(m, node, cls=c)
                self._decorate(m, f)
                c.methods[node.name] = f
            elif isinstance(node, ast.Assign):
                for t in node.targets:
                    if isinstance(t, ast.Name):
                        c.attrs[t.id] = node.value
            elif isinstance(node, ast.AnnAssign) and node.value is not None:
                if isinstance(node.target, ast.Name):
                    c.attrs[node.target.id] = node.value

    def _decorate(self, m, f):
        for d in f.decorators:
            call_args = None
            target = d
            if isinstance(d, ast.Call):
                target = d.func
                call_args = d.args
            name = dotted(target)
            if name is None:
                continue
            q = self.qualify(m, name)
            last = name[-1]
            if q in ('contextlib.contextmanager',) or last == 'contextmanager':
                f.is_contextmanager = True
            elif q == 'ZODB.utils.locked' or last == 'locked':
                pre = []
                for a in (call_args or []):
                    dn = dotted(a)
                    pre.append(dn[-1] if dn else ast.unparse(a))
                f.locked = pre
            elif last == 'staticmethod':
                f.is_static = True
            elif last == 'classmethod':
                f.is_classmethod = True
            elif last == 'property' or last in ('setter', 'getter'):
                f.is_property = True

    def _resolve_bases(self, m):
        for c in m.classes.values():
            for b in c.node.bases:
                name = dotted(b)
                obj = self.resolve_dotted(m, name) if name else None
                if isinstance(obj, ClassInfo):
                    c.bases.append(obj)
                else:
                    q = self.qualify(m, name) if name else ast.unparse(b)
                    c.bases.append(External(q))

    def _apply_monkey(self, m):
        for target, value in m.monkey:
            name = dotted(target)
            if not name or len(name) < 2:
                continue
            owner = self.resolve_dotted(m, name[:-1])
            if isinstance(owner, ClassInfo):
                vn = dotted(value)
                obj = self.resolve_dotted(m, vn) if vn else None
                if obj is not None:
                    owner.monkey[name[-1]] = obj

    # --------------------------------------------------------- name lookup

    def qualify(self, m, name):
        """Dotted name as written in module `m` -> qualified dotted string."""
        if not name:
            return None
        head = name[0]
        if head in m.imports:
            return '.'.join((m.imports[head],) + tuple(name[1:]))
        if head in m.functions or head in m.classes or head in m.consts:
            return '.'.join((m.name,) + tuple(name))
        return '.'.join(name)

    def resolve_dotted(self, m, name, _depth=0):
        """Resolve a dotted name written in module `m` to a ModuleInfo,
        ClassInfo, FunctionInfo or ('const', module, expr); else None."""
        if not name or _depth > 8:
            return None
        head = name[0]
        obj = None
        if head in m.classes:
            obj = m.classes[head]
        elif head in m.functions:
            obj = m.functions[head]
        elif head in m.imports:
            obj = self.resolve_qual(m.imports[head], _depth + 1)
        elif head in m.consts:
            obj = ('const', m, m.consts[head])
        if obj is None:
            return None
        for attr in name[1:]:
            obj = self._getattr(obj, attr, _depth + 1)
            if obj is None:
                return None
        if isinstance(obj, tuple) and obj[0] == 'const':
            # follow simple aliases: remove_committed = os.remove
            dn = dotted(obj[2])
            if dn:
                r = self.resolve_dotted(obj[1], dn, _depth + 1)
                if r is not None:
                    return r
        return obj

    def resolve_qual(self, q, _depth=0):
        parts = q.split('.')
        for i in range(len(parts), 0, -1):
            mod = self.modules.get('.'.join(parts[:i]))
            if mod is not None:
                obj = mod
                for attr in parts[i:]:
                    obj = self._getattr(obj, attr, _depth + 1)
                    if obj is None:
                        return None
                return obj
        return None

    def _getattr(self, obj, attr, _depth):
        if isinstance(obj, ModuleInfo):
            sub = self.modules.get(obj.name + '.' + attr)
            if attr in obj.classes or attr in obj.functions or \
                    attr in obj.imports or attr in obj.consts:
                return self.resolve_dotted(obj, (attr,), _depth)
            return sub
        if isinstance(obj, ClassInfo):
            found = self.find_attr(obj, attr)
            if found is not None:
                return found[0]
        return None

    # ------------------------------------------------------------ classes

    def cls(self, qualname):
        obj = self.resolve_qual(qualname)
        if not isinstance(obj, ClassInfo):
            raise AnalysisError('anchor class %s not found' % qualname)
        return obj

    def func(self, qualname):
        obj = self.resolve_qual(qualname)
        if not isinstance(obj, FunctionInfo):
            raise AnalysisError('anchor function %s not found' % qualname)
        return obj

    def module(self, name):
        m = self.modules.get(name)
        if m is None:
            raise AnalysisError('anchor module %s not found' % name)
        return m

    def mro(self, c):
        if isinstance(c, External):
            return [c]
        if c._mro is None:
            c._mro = [c]  # recursion guard
            seqs = [self.mro(b)[:] for b in c.bases] + [list(c.bases)]
            res = [c]
            while True:
                seqs = [s for s in seqs if s]
                if not seqs:
                    break
                cand = None
                for s in seqs:
                    cand = s[0]
                    if not any(cand in t[1:] for t in seqs):
                        break
                    cand = None
                if cand is None:
                    # inconsistent hierarchy: fall back to depth first
                    cand = seqs[0][0]
                res.append(cand)
                for s in seqs:
                    if s and s[0] == cand:
                        del s[0]
            c._mro = res
        return c._mro

    def is_subclass(self, c, base_qual):
        return any(getattr(k, 'qualname', None) == base_qual
                   for k in self.mro(c))

    def find_attr(self, c, name):
        """Look `name` up along the static MRO of class `c`.

        Returns (object, defining class) where object is a FunctionInfo, a
        ClassInfo, or ('const', module, expr); class-level aliases
        (`close = release`, `load = load_current`) are followed."""
        for k in self.mro(c):
            if isinstance(k, External):
                continue
            if name in k.monkey:
                return k.monkey[name], k
            if name in k.methods:
                return k.methods[name], k
            if name in k.attrs:
                expr = k.attrs[name]
                r = self._class_alias(k, expr)
                if r is not None:
                    return r, k
                return ('const', k.module, expr), k
        return None

    def _class_alias(self, k, expr):
        dn = dotted(expr)
        if dn is None:
            return None
        if len(dn) == 1 and dn[0] in k.methods:
            return k.methods[dn[0]]
        if len(dn) == 1 and dn[0] in k.attrs and \
                k.attrs[dn[0]] is not expr:
            return self._class_alias(k, k.attrs[dn[0]])
        obj = self.resolve_dotted(k.module, dn)
        if isinstance(obj, (FunctionInfo, ClassInfo)):
            return obj
        return None

    def find_method(self, c, name):
        r = self.find_attr(c, name)
        if r is not None and isinstance(r[0], FunctionInfo):
            return r
        return None

    def all_classes(self):
        for m in self.modules.values():
            yield from m.classes.values()

    def all_functions(self):
        """Every module function and method (not nested defs)."""
        for m in self.modules.values():
            yield from m.functions.values()
            for c in m.classes.values():
                yield from c.methods.values()

    def subclasses(self, c):
        return [k for k in self.all_classes() if c in self.mro(k)]

    # ------------------------------------------------ attribute inference

    def self_attr_facts(self, c):
        """Facts about `self.X = ...` assignments in any method of the MRO.

        Returns dict attr -> list of (kind, payload, FunctionInfo, node):
          ('class', ClassInfo)   self.X = ClassName(...)
          ('lock', kind)         self.X = utils.Lock()/RLock()/Condition()
          ('alias', path)        self.X = self.Y.m   (bound method alias)
          ('param', name)        self.X = <parameter of the method>
          ('other', expr)
        """
        key = c.qualname
        if key in self._attr_cache:
            return self._attr_cache[key]
        facts = {}
        for k in self.mro(c):
            if isinstance(k, External):
                continue
            for f in k.methods.values():
                for n in walk_local(f.node):
                    targets = []
                    value = None
                    if isinstance(n, ast.Assign):
                        value = n.value
                        for t in n.targets:
                            if isinstance(t, ast.Tuple):
                                targets.extend(t.elts)
                            else:
                                targets.append(t)
                        if len(n.targets) == 1 and \
                                isinstance(n.targets[0], ast.Tuple):
                            value = None   # tuple unpacking: unknown
                    elif isinstance(n, ast.AugAssign):
                        targets = [n.target]
                    for t in targets:
                        if isinstance(t, ast.Attribute) and \
                                isinstance(t.value, ast.Name) and \
                                t.value.id == 'self' and f.params[:1] == ['self']:
                            facts.setdefault(mangle(k, t.attr), []).append(
                                self._classify_value(k, f, value) + (f, n))
        self._attr_cache[key] = facts
        return facts

    def _classify_value(self, k, f, value):
        if value is None:
            return ('other', None)
        if isinstance(value, ast.Call):
            dn = dotted(value.func)
            if dn:
                q = self.qualify(k.module, dn)
                if q in LOCK_CTORS:
                    return ('lock', LOCK_CTORS[q])
                obj = self.resolve_dotted(k.module, dn)
                if isinstance(obj, ClassInfo):
                    return ('class', obj)
                if isinstance(obj, tuple) and obj[0] == 'const':
                    pass
        dn = dotted(value)
        if dn:
            if dn[0] == 'self' and len(dn) >= 3:
                return ('alias', dn)
            if len(dn) == 1 and dn[0] in f.params:
                return ('param', dn[0])
            if len(dn) == 2 and dn[0] in f.params:
                return ('param-attr', dn)
        return ('other', value)


# Receivers whose type cannot be inferred from a constructor call in the
# class.  Frozen, one line of reason each (DESIGN.md section 2.1).
FROZEN_ATTR_TYPES = {
    # (class qualname, attr): type tag
    ('ZODB.FileStorage.FileStorage.FileStorage', '_file'): 'file',      # open(...)
    ('ZODB.FileStorage.FileStorage.FileStorage', '_tfile'): 'file',     # open(...)
    ('ZODB.FileStorage.fspack.FileStoragePacker', '_storage'):
        'ZODB.FileStorage.FileStorage.FileStorage',                      # ctor argument
    ('ZODB.DemoStorage.DemoStorage', 'base'): 'storage',                # ctor argument
    ('ZODB.DemoStorage.DemoStorage', 'changes'): 'storage',             # ctor argument
    ('ZODB.mvccadapter.Base', '_storage'): 'storage',                   # ctor argument
    ('ZODB.mvccadapter.MVCCAdapterInstance', '_base'):
        'ZODB.mvccadapter.MVCCAdapter',                                  # ctor argument
    ('ZODB.mvccadapter.UndoAdapterInstance', '_base'):
        'ZODB.mvccadapter.MVCCAdapter',                                  # ctor argument
    ('ZODB.Connection.TmpStore', '_storage'): 'storage',                # ctor argument
    ('ZODB.blob.BlobStorage', '_BlobStorage__storage'): 'storage',      # ctor argument
}


# Element types of collections we iterate over (frozen, one reason each).
FROZEN_ELEMENT_TYPES = {
    ('ZODB.mvccadapter.MVCCAdapter', '_instances'):
        'ZODB.mvccadapter.MVCCAdapterInstance',   # new_instance() adds these
}


def element_type(prog, c, attr):
    for k in prog.mro(c):
        t = FROZEN_ELEMENT_TYPES.get((getattr(k, 'qualname', None), attr))
        if t is not None:
            return prog.cls(t)
    return None


def attr_type(prog, c, attr):
    """Static type of `self.<attr>` for class `c`: a ClassInfo, a tag string
    ('file', 'storage', 'lock:<kind>') or None when unknown."""
    for k in prog.mro(c):
        if isinstance(k, External):
            continue
        t = FROZEN_ATTR_TYPES.get((k.qualname, attr))
        if t is not None:
            if '.' in t:
                return prog.cls(t)
            return t
    facts = prog.self_attr_facts(c).get(attr, [])
    classes = {p.qualname: p for kind, p, f, n in facts if kind == 'class'}
    locks = {p for kind, p, f, n in facts if kind == 'lock'}
    if len(classes) == 1 and not locks:
        return next(iter(classes.values()))
    if len(locks) == 1 and not classes:
        return 'lock:' + next(iter(locks))
    return None
