"""Generic mutation sweep over the analysed sources (thorough-tier report and
a development aid): syntactic mutants of the anchored functions are written
to scratch copies and the relevant properties' quick checks are run on them.
A mutant that no rule reports is *not* a failure -- many mutants do not break
any property -- but the survivors are listed for triage, and the kill counts
per rule show which rules carry weight.

    python -m zverif.mutate [--limit N] [--seed S] [--out FILE] [--props C01,C02]
"""

import argparse
import ast
import io
import json
import os
import random
import shutil
import sys
import tempfile
import time
from concurrent.futures import ProcessPoolExecutor

from . import SRC, VERIF

TARGETS = {
    # relpath: (properties whose checks are run, function-name filter or None)
    'ZODB/FileStorage/FileStorage.py': (
        ['C01', 'C02', 'C03', 'C04', 'C05', 'C06', 'C08', 'C09', 'C13',
         'C17', 'C20'], None),
    'ZODB/BaseStorage.py': (['C03', 'C04', 'C05', 'C17', 'C20', 'C02'], None),
    'ZODB/MappingStorage.py': (['C02', 'C03', 'C04', 'C05', 'C07', 'C20'],
                               None),
    'ZODB/DemoStorage.py': (['C02', 'C03', 'C05', 'C10', 'C16', 'C20'], None),
    'ZODB/mvccadapter.py': (['C02', 'C06', 'C15', 'C10'], None),
    'ZODB/Connection.py': (['C02', 'C03', 'C11', 'C12', 'C13', 'C15', 'C05',
                            'C10', 'C20'], None),
    'ZODB/FileStorage/fspack.py': (['C07', 'C08', 'C13'], None),
    'ZODB/FileStorage/format.py': (['C01', 'C04', 'C02'], None),
    'ZODB/blob.py': (['C13', 'C05', 'C17', 'C06'], None),
    'ZODB/fsIndex.py': (['C19'], None),
    'ZODB/fsrecover.py': (['C17', 'C04'], None),
    'ZODB/scripts/repozo.py': (['C18'], None),
    'ZODB/ConflictResolution.py': (['C10', 'C14'], None),
    'ZODB/serialize.py': (['C14', 'C11', 'C07', 'C20'], None),
    'ZODB/DB.py': (['C15', 'C02'], None),
    'ZODB/utils.py': (['C04'], None),
}

ANCHORED = set("""
tpc_begin tpc_vote tpc_finish tpc_abort _finish _finish_finish _abort
_clear_temp _begin store restore deleteObject undo _txn_undo_write
_transactionalUndoRecord pack load loadBefore loadSerial getTid new_oid
set_max_oid read_index _truncate _restore_index _sane _check_sanity
_save_index close write_lock get flush empty poll_invalidations _invalidate
_invalidate_finish invalidate invalidateCache new_instance release _release
commit _commit _store_objects _store_objects_of abort _tpc_cleanup
_invalidate_creating savepoint _rollback_savepoint _commit_savepoint
_abort_savepoint reset storeBlob loadBlob _getCleanFilename newTransaction
open afterCompletion _add add persistent_id load_persistent load_oid
load_persistent_weakref referencesf get_refs tryToResolveConflict copyOne
copyRest copyDataRecords copyToPacktime findReachable findReachableAtPacktime
findReachableFromFuture buildPackIndex _blob_storeblob _blob_tpc_abort
_blob_tpc_finish restoreBlob minKey maxKey __setitem__ __delitem__
__getitem__ __contains__ save scan copy recover read_txn_header do_full_backup
do_incremental_backup do_backup copyfile do_recover do_verify getTID
checkCurrentSerialInTransaction newTid __init__ _copy_methods_from_changes
history undoLog _txn_find _data_find lastInvalidations _undoDataInfo
_remove_blob_files_tagged_for_removal_during_pack readCurrent register
_register setstate oldstate _release_resources _initIndex cleanup
_packUndoing _packNonUndoing tpc_transaction sync _read_data_header
_read_txn_header _loadBack_impl isReachable findrefs writePackedDataRecord
fetchDataViaBackpointer consumeFile _uncommitted _create_uncommitted_file
committed push pop temporaryDirectory _blobify
""".split())

CMP_SWAP = {ast.Eq: ast.NotEq, ast.NotEq: ast.Eq, ast.Lt: ast.LtE,
            ast.LtE: ast.Lt, ast.Gt: ast.GtE, ast.GtE: ast.Gt,
            ast.Is: ast.IsNot, ast.IsNot: ast.Is, ast.In: ast.NotIn,
            ast.NotIn: ast.In}


ANCHORED_ONLY = True


def _blocks(fn):
    """(owner node, field name, statement list) for every block of fn"""
    for n in ast.walk(fn):
        for field in ('body', 'orelse', 'finalbody'):
            b = getattr(n, field, None)
            if isinstance(b, list) and b and isinstance(b[0], ast.stmt):
                yield n, field, b
        if isinstance(n, ast.Try):
            for h in n.handlers:
                yield h, 'body', h.body


def simple(s):
    return isinstance(s, (ast.Expr, ast.Assign, ast.AugAssign)) and not (
        isinstance(s, ast.Expr) and isinstance(s.value, ast.Constant))


def mutants_of(source, relpath):
    """yield (description, new source)"""
    tree = ast.parse(source)
    lines = source.splitlines(keepends=True)
    funcs = [n for n in ast.walk(tree)
             if isinstance(n, (ast.FunctionDef,))]

    def seg(node):
        return ''.join(lines[node.lineno - 1:node.end_lineno])

    def replace_lines(node, new_text):
        return ''.join(lines[:node.lineno - 1]) + new_text + \
            ''.join(lines[node.end_lineno:])

    def indent_of(node):
        l = lines[node.lineno - 1]
        return l[:len(l) - len(l.lstrip())]

    for fn in funcs:
        fname = fn.name
        if ANCHORED_ONLY and fname not in ANCHORED:
            continue
        for owner, field, block in _blocks(fn):
            for i, s in enumerate(block):
                where = '%s:%s:%d' % (relpath, fname, s.lineno)
                # 1. delete a simple statement (not the only definition of
                #    a local: that is a NameError any test finds)
                if simple(s) and not (isinstance(s, ast.Assign) and all(
                        isinstance(t, (ast.Name, ast.Tuple))
                        for t in s.targets)):
                    new = indent_of(s) + 'pass\n'
                    yield ('delete `%s` [%s]' % (
                        ' '.join(ast.unparse(s).split())[:60], where),
                        replace_lines(s, new))
                # 2. swap with the next simple statement
                if simple(s) and i + 1 < len(block) and simple(block[i + 1]):
                    t = block[i + 1]
                    new = seg(t) + seg(s)
                    src2 = ''.join(lines[:s.lineno - 1]) + new + \
                        ''.join(lines[t.end_lineno:])
                    yield ('swap `%s` <-> `%s` [%s]' % (
                        ' '.join(ast.unparse(s).split())[:40],
                        ' '.join(ast.unparse(t).split())[:40], where), src2)
                # 3. raise -> pass
                if isinstance(s, ast.Raise) and len(block) >= 1:
                    yield ('raise -> pass `%s` [%s]' % (
                        ' '.join(ast.unparse(s).split())[:50], where),
                        replace_lines(s, indent_of(s) + 'pass\n'))
                # 4. with <lock> -> if True
                if isinstance(s, ast.With) and len(s.items) == 1 and \
                        s.lineno == s.items[0].context_expr.lineno:
                    ce = ast.unparse(s.items[0].context_expr)
                    if ('lock' in ce or '_cond' in ce) and \
                            s.items[0].optional_vars is None:
                        head = lines[s.lineno - 1]
                        if head.rstrip().endswith(':'):
                            new_head = indent_of(s) + 'if True:\n'
                            yield ('unlock `with %s` [%s]' % (ce, where),
                                   ''.join(lines[:s.lineno - 1]) + new_head +
                                   ''.join(lines[s.lineno:]))
                # 5. if-test negation
                if isinstance(s, ast.If) and s.test.lineno == s.lineno and \
                        s.test.end_lineno == s.lineno:
                    head = lines[s.lineno - 1]
                    t = ast.unparse(s.test)
                    a, b = s.test.col_offset, s.test.end_col_offset
                    new_head = head[:a] + 'not (' + head[a:b] + ')' + head[b:]
                    yield ('negate `if %s` [%s]' % (t[:50], where),
                           ''.join(lines[:s.lineno - 1]) + new_head +
                           ''.join(lines[s.lineno:]))
                # 6. move the last statement of a try body after the try
                if isinstance(s, ast.Try) and s.finalbody and \
                        len(s.body) >= 1:
                    # dedent the finally body: run it only on success
                    fb = s.finalbody
                    first, last = fb[0], fb[-1]
                    fin_kw = first.lineno - 2
                    if lines[fin_kw].strip() == 'finally:':
                        ind = lines[fin_kw][:len(lines[fin_kw]) -
                                            len(lines[fin_kw].lstrip())]
                        body = lines[first.lineno - 1:last.end_lineno]
                        cur = indent_of(first)
                        ded = [ind + l[len(cur):] if l.startswith(cur) else l
                               for l in body]
                        new = ind + 'finally:\n' + cur + 'pass\n' + \
                            ''.join(ded)
                        yield ('finally -> after try [%s]' % where,
                               ''.join(lines[:fin_kw]) + new +
                               ''.join(lines[last.end_lineno:]))
        # 7. comparison operator replacement / 8. argument swap
        for n in ast.walk(fn):
            if isinstance(n, ast.Compare) and len(n.ops) == 1 and \
                    n.lineno == n.end_lineno and type(n.ops[0]) in CMP_SWAP:
                l = lines[n.lineno - 1]
                a, b = n.col_offset, n.end_col_offset
                new_cmp = ast.Compare(left=n.left,
                                      ops=[CMP_SWAP[type(n.ops[0])]()],
                                      comparators=n.comparators)
                txt = ast.unparse(new_cmp)
                yield ('cmp `%s` -> `%s` [%s:%s:%d]' % (
                    ast.unparse(n)[:40], txt[:40], relpath, fname, n.lineno),
                    ''.join(lines[:n.lineno - 1]) + l[:a] + txt + l[b:] +
                    ''.join(lines[n.lineno:]))
            if isinstance(n, ast.Call) and n.lineno == n.end_lineno and \
                    len(n.args) >= 2 and all(
                        isinstance(a, (ast.Name, ast.Attribute))
                        for a in n.args[:2]) and not n.keywords and \
                    ast.unparse(n.args[0]) != ast.unparse(n.args[1]):
                l = lines[n.lineno - 1]
                a0, a1 = n.args[0], n.args[1]
                if a0.lineno == a1.lineno == n.lineno:
                    new_l = l[:a0.col_offset] + l[a1.col_offset:
                                                  a1.end_col_offset] + \
                        l[a0.end_col_offset:a1.col_offset] + \
                        l[a0.col_offset:a0.end_col_offset] + \
                        l[a1.end_col_offset:]
                    yield ('argswap `%s` [%s:%s:%d]' % (
                        ast.unparse(n)[:50], relpath, fname, n.lineno),
                        ''.join(lines[:n.lineno - 1]) + new_l +
                        ''.join(lines[n.lineno:]))


def _run(args):
    desc, relpath, text, props, src = args
    from . import engine
    try:
        ast.parse(text)
    except SyntaxError:
        return desc, 'syntax', [], relpath
    d = tempfile.mkdtemp(prefix='zverif-mut-')
    try:
        dst = os.path.join(d, 'src')
        shutil.copytree(os.path.join(src, 'ZODB'), os.path.join(dst, 'ZODB'),
                        ignore=shutil.ignore_patterns('__pycache__', 'tests'))
        with open(os.path.join(dst, relpath), 'w') as f:
            f.write(text)
        fired = set()
        err = False
        for pid in props:
            out = io.StringIO()
            rc = engine.check_property(pid, 'quick', 0, out=out, src=dst,
                                       write_evidence=False,
                                       write_replays=False)
            if rc == 1:
                fired |= {l.split()[1] for l in out.getvalue().splitlines()
                          if l.startswith('--- ')}
            elif rc == 2:
                err = True
                fired.add('ANALYSIS-ERROR:' + pid)
        return desc, ('killed' if fired else 'survived'), sorted(fired), \
            relpath
    finally:
        shutil.rmtree(d, ignore_errors=True)


def main(argv=None):
    ap = argparse.ArgumentParser()
    ap.add_argument('--limit', type=int, default=0)
    ap.add_argument('--seed', type=int, default=int(os.environ.get(
        'VERIF_SEED', '0') or 0))
    ap.add_argument('--out', default=None)
    ap.add_argument('--props', default=None)
    ap.add_argument('--files', default=None)
    ap.add_argument('--jobs', type=int, default=16)
    a = ap.parse_args(argv)
    only = set(a.props.split(',')) if a.props else None
    files = set(a.files.split(',')) if a.files else None
    todo = []
    for rel, (props, _f) in TARGETS.items():
        if files and rel not in files:
            continue
        if only:
            props = [p for p in props if p in only]
            if not props:
                continue
        with open(os.path.join(SRC, rel)) as f:
            source = f.read()
        for desc, text in mutants_of(source, rel):
            todo.append((desc, rel, text, props, SRC))
    rnd = random.Random(a.seed)
    rnd.shuffle(todo)
    if a.limit:
        todo = todo[:a.limit]
    t0 = time.time()
    with ProcessPoolExecutor(max_workers=a.jobs) as ex:
        res = list(ex.map(_run, todo, chunksize=4))
    killed = [r for r in res if r[1] == 'killed']
    surv = [r for r in res if r[1] == 'survived']
    by_rule = {}
    for d, st, fired, rel in killed:
        for r in fired:
            by_rule[r] = by_rule.get(r, 0) + 1
    rep = {'mutants': len(res), 'killed': len(killed),
           'survived': len(surv),
           'syntax': len([r for r in res if r[1] == 'syntax']),
           'kills_by_rule': dict(sorted(by_rule.items())),
           'survivors': sorted(d for d, st, f, rel in surv),
           'wall_s': round(time.time() - t0, 1)}
    out = a.out or os.path.join(tempfile.gettempdir(), 'zverif-mutants.json')
    with open(out, 'w') as f:
        json.dump(rep, f, indent=1)
    print('mutants=%d killed=%d survived=%d (%.0f%%) in %.0fs -> %s' % (
        rep['mutants'], rep['killed'], rep['survived'],
        100.0 * rep['killed'] / max(1, rep['mutants']), rep['wall_s'], out))
    errs = [k for k in by_rule if k.startswith('ANALYSIS-ERROR')]
    if errs:
        print('note: %d mutants made a check give up (ANALYSIS-ERROR): %s' % (
            sum(by_rule[k] for k in errs), errs))
    return 0


if __name__ == '__main__':
    sys.exit(main())
