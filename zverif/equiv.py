"""Behaviour-preserving transformation sweep (thorough tier; DESIGN.md 2.7):
the analysed sources are rewritten by *semantics-preserving* program
transformations -- computed on the syntax tree of the current tree, nothing
is stored -- and every property check must stay silent on every rewritten
copy.  An alarm (exit 1) is a false alarm of a rule; a give-up (exit 2) is a
rule that depends on spelling.  Either fails the self-test.

Transformations (each applied to one whole file at a time):

  rename      every function's purely local variables get a new name
              (scopes from `symtable`: assigned in the function, not a
              parameter, not global/nonlocal, not referenced by a nested
              scope)
  flipcmp     `a == b` -> `b == a`, `a is b` -> `b is a`, `a < b` -> `b > a`
              ... for side-effect-free operands
  invertif    `if c: A else: B`  ->  `if not c: B else: A`
  demorgan    `if a and b:` -> `if not (not a or not b):`  (and the dual)
  augassign   `x += e` -> `x = x + e` for plain names
  lockstmt    `with self._lock: B` ->
              `self._lock.acquire(); try: B finally: self._lock.release()`
              (only for locks the model knows as plain locks)
  reformat    the file as printed by ast.unparse (comments, blank lines and
              line breaks gone, every line number changed)
  tempret     `return f(x)` -> `_ret_tmp = f(x); return _ret_tmp`
  elsereturn  `if c: ...; return` REST  ->  `if c: ...; return` else: REST
  isnot       `a is not b` -> `not a is b`, `a not in b` -> `not a in b`,
              `while 1` -> `while True`
  guardclause a trailing `if c: BODY` of a loop body / function body ->
              `if not c: continue` (`return`) followed by BODY

    python -m zverif.equiv [--files a.py,b.py] [--only rename,flipcmp] [--jobs N]
"""

import argparse
import ast
import copy
import io
import os
import shutil
import symtable
import sys
import tempfile
import time
from concurrent.futures import ProcessPoolExecutor

from . import SRC

FILES = [
    'ZODB/FileStorage/FileStorage.py', 'ZODB/BaseStorage.py',
    'ZODB/MappingStorage.py', 'ZODB/DemoStorage.py', 'ZODB/mvccadapter.py',
    'ZODB/Connection.py', 'ZODB/FileStorage/fspack.py',
    'ZODB/FileStorage/format.py', 'ZODB/blob.py', 'ZODB/fsIndex.py',
    'ZODB/fsrecover.py', 'ZODB/scripts/repozo.py',
    'ZODB/ConflictResolution.py', 'ZODB/serialize.py', 'ZODB/DB.py',
    'ZODB/utils.py', 'ZODB/scripts/fstest.py', 'ZODB/ExportImport.py',
    'ZODB/historical_connections.txt',
]
FILES = [f for f in FILES if f.endswith('.py')]

PROPS = ['C%02d' % i for i in range(1, 21)]


# ------------------------------------------------------------------ rename
def _scope_locals(table, out):
    """(function name, lineno) -> set of names safe to rename"""
    for child in table.get_children():
        if child.get_type() == 'function':
            free_in_children = set()

            def collect(t):
                for c in t.get_children():
                    for s in c.get_symbols():
                        if s.is_free() or s.is_global() or \
                                s.is_declared_global() or s.is_nonlocal():
                            free_in_children.add(s.get_name())
                        # a class body / comprehension reading the name
                        if s.is_referenced() and not s.is_local():
                            free_in_children.add(s.get_name())
                    collect(c)
            collect(child)
            names = set()
            for s in child.get_symbols():
                n = s.get_name()
                if s.is_local() and s.is_assigned() and \
                        not s.is_parameter() and not s.is_global() and \
                        not s.is_nonlocal() and not s.is_free() and \
                        n not in free_in_children and not n.startswith('__') \
                        and not s.is_imported() and not s.is_namespace():
                    names.add(n)
            out[(child.get_name(), child.get_lineno())] = names
        _scope_locals(child, out)


class _Renamer(ast.NodeTransformer):
    def __init__(self, scopes):
        self.scopes = scopes
        self.stack = []

    def _func(self, node):
        names = self.scopes.get((node.name, node.lineno), set())
        # `except ... as name`, `import x as name`, `global`: leave alone
        for x in ast.walk(node):
            if isinstance(x, ast.ExceptHandler) and x.name:
                names.discard(x.name)
            if isinstance(x, (ast.Import, ast.ImportFrom)):
                for a in x.names:
                    names.discard((a.asname or a.name).split('.')[0])
            if isinstance(x, (ast.Global, ast.Nonlocal)):
                for n in x.names:
                    names.discard(n)
            if isinstance(x, ast.MatchAs) and x.name:
                names.discard(x.name)
        # defaults and decorators are evaluated in the enclosing scope
        node.args = self._outer_args(node.args)
        node.decorator_list = [self.visit(d) for d in node.decorator_list]
        self.stack.append(names)
        node.body = [self.visit(s) for s in node.body]
        self.stack.pop()
        return node

    def _outer_args(self, args):
        args.defaults = [self.visit(d) for d in args.defaults]
        args.kw_defaults = [self.visit(d) if d is not None else None
                            for d in args.kw_defaults]
        return args

    visit_FunctionDef = _func
    visit_AsyncFunctionDef = _func

    def visit_Lambda(self, node):
        node.args = self._outer_args(node.args)
        return node

    def visit_ClassDef(self, node):
        self.stack.append(set())
        self.generic_visit(node)
        self.stack.pop()
        return node

    def visit_Name(self, node):
        if self.stack and node.id in self.stack[-1]:
            node.id = node.id + '_rn'
        return node


def t_rename(text, relpath):
    tree = ast.parse(text)
    scopes = {}
    _scope_locals(symtable.symtable(text, relpath, 'exec'), scopes)
    # nested functions and comprehensions inside a function body are visited
    # with the *inner* function's own set (comprehension targets are not in
    # the function's symbol table as locals, so they are untouched)
    tree = _Renamer(scopes).visit(tree)
    return ast.unparse(ast.fix_missing_locations(tree))


# ----------------------------------------------------------------- flipcmp
FLIP = {ast.Eq: ast.Eq, ast.NotEq: ast.NotEq, ast.Is: ast.Is,
        ast.IsNot: ast.IsNot, ast.Lt: ast.Gt, ast.Gt: ast.Lt,
        ast.LtE: ast.GtE, ast.GtE: ast.LtE}


def _pure(e):
    return all(isinstance(x, (ast.Name, ast.Attribute, ast.Constant,
                              ast.Load, ast.Tuple, ast.UnaryOp, ast.USub,
                              ast.BinOp, ast.Add, ast.Sub, ast.Mult))
               for x in ast.walk(e))


class _FlipCmp(ast.NodeTransformer):
    def visit_Compare(self, node):
        self.generic_visit(node)
        if len(node.ops) == 1 and type(node.ops[0]) in FLIP and \
                _pure(node.left) and _pure(node.comparators[0]):
            return ast.Compare(left=node.comparators[0],
                               ops=[FLIP[type(node.ops[0])]()],
                               comparators=[node.left])
        return node


def t_flipcmp(text, relpath):
    return ast.unparse(ast.fix_missing_locations(
        _FlipCmp().visit(ast.parse(text))))


# ---------------------------------------------------------------- invertif
class _InvertIf(ast.NodeTransformer):
    def visit_If(self, node):
        self.generic_visit(node)
        if node.orelse and not (len(node.orelse) == 1 and isinstance(
                node.orelse[0], ast.If)):
            t = node.test
            if isinstance(t, ast.UnaryOp) and isinstance(t.op, ast.Not):
                nt = t.operand
            else:
                nt = ast.UnaryOp(op=ast.Not(), operand=t)
            return ast.If(test=nt, body=node.orelse, orelse=node.body)
        return node


def t_invertif(text, relpath):
    return ast.unparse(ast.fix_missing_locations(
        _InvertIf().visit(ast.parse(text))))


# ---------------------------------------------------------------- demorgan
class _DeMorgan(ast.NodeTransformer):
    def visit_If(self, node):
        self.generic_visit(node)
        t = node.test
        if isinstance(t, ast.BoolOp):
            dual = ast.Or() if isinstance(t.op, ast.And) else ast.And()
            node.test = ast.UnaryOp(op=ast.Not(), operand=ast.BoolOp(
                op=dual, values=[
                    v.operand if isinstance(v, ast.UnaryOp) and isinstance(
                        v.op, ast.Not)
                    else ast.UnaryOp(op=ast.Not(), operand=v)
                    for v in t.values]))
        return node


def t_demorgan(text, relpath):
    return ast.unparse(ast.fix_missing_locations(
        _DeMorgan().visit(ast.parse(text))))


# --------------------------------------------------------------- augassign
class _AugAssign(ast.NodeTransformer):
    def visit_AugAssign(self, node):
        if isinstance(node.target, ast.Name):
            return ast.Assign(
                targets=[ast.Name(id=node.target.id, ctx=ast.Store())],
                value=ast.BinOp(left=ast.Name(id=node.target.id,
                                              ctx=ast.Load()),
                                op=node.op, right=node.value))
        return node


def t_augassign(text, relpath):
    return ast.unparse(ast.fix_missing_locations(
        _AugAssign().visit(ast.parse(text))))


# ---------------------------------------------------------------- lockstmt
class _LockStmt(ast.NodeTransformer):
    def visit_With(self, node):
        self.generic_visit(node)
        if len(node.items) == 1 and node.items[0].optional_vars is None:
            ce = node.items[0].context_expr
            if isinstance(ce, ast.Attribute) and isinstance(
                    ce.value, ast.Name) and ce.value.id == 'self' and \
                    ce.attr in ('_lock', '_commit_lock'):
                acq = ast.Expr(ast.Call(func=ast.Attribute(
                    value=copy.deepcopy(ce), attr='acquire', ctx=ast.Load()),
                    args=[], keywords=[]))
                rel = ast.Expr(ast.Call(func=ast.Attribute(
                    value=copy.deepcopy(ce), attr='release', ctx=ast.Load()),
                    args=[], keywords=[]))
                return [acq, ast.Try(body=node.body, handlers=[], orelse=[],
                                     finalbody=[rel])]
        return node


def t_lockstmt(text, relpath):
    return ast.unparse(ast.fix_missing_locations(
        _LockStmt().visit(ast.parse(text))))


def t_reformat(text, relpath):
    return ast.unparse(ast.parse(text))


# ----------------------------------------------------------------- tempret
class _TempRet(ast.NodeTransformer):
    """`return f(x)` -> `_ret = f(x); return _ret` (not in generators'
    lambdas; skips trivial values)."""

    def _block(self, stmts):
        out = []
        for s_ in stmts:
            s_ = self.visit(s_)
            if isinstance(s_, ast.Return) and s_.value is not None and \
                    not isinstance(s_.value, (ast.Name, ast.Constant)):
                out.append(ast.Assign(
                    targets=[ast.Name(id='_ret_tmp', ctx=ast.Store())],
                    value=s_.value))
                out.append(ast.Return(value=ast.Name(id='_ret_tmp',
                                                     ctx=ast.Load())))
            else:
                out.append(s_)
        return out

    def generic_visit(self, node):
        for field in ('body', 'orelse', 'finalbody'):
            b = getattr(node, field, None)
            if isinstance(b, list) and b and isinstance(b[0], ast.stmt):
                setattr(node, field, self._block(b))
        if isinstance(node, ast.Try):
            for h in node.handlers:
                h.body = self._block(h.body)
        if isinstance(node, ast.Module):
            return node
        return node

    def visit_Lambda(self, node):
        return node


def t_tempret(text, relpath):
    tree = ast.parse(text)
    tree.body = _TempRet()._block(tree.body)
    return ast.unparse(ast.fix_missing_locations(tree))


# -------------------------------------------------------------- elsereturn
def _terminal(stmts):
    return bool(stmts) and isinstance(stmts[-1], (ast.Return, ast.Raise,
                                                  ast.Continue, ast.Break))


class _ElseReturn(ast.NodeTransformer):
    """`if c: ...; return` followed by REST  ->  `if c: ...; return` /
    `else: REST` (REST moved into the else block)."""

    def _block(self, stmts):
        stmts = [self.visit(s_) for s_ in stmts]
        for i, s_ in enumerate(stmts):
            if isinstance(s_, ast.If) and not s_.orelse and _terminal(
                    s_.body) and i + 1 < len(stmts):
                rest = stmts[i + 1:]
                # moving a nested def/class or a global decl changes nothing
                # either, but keep them out to be safe
                if any(isinstance(r, (ast.FunctionDef, ast.ClassDef,
                                      ast.Global, ast.Nonlocal))
                       for r in rest):
                    continue
                s_.orelse = rest
                return stmts[:i + 1]
        return stmts

    def generic_visit(self, node):
        for field in ('body', 'orelse', 'finalbody'):
            b = getattr(node, field, None)
            if isinstance(b, list) and b and isinstance(b[0], ast.stmt):
                setattr(node, field, self._block(b))
        if isinstance(node, ast.Try):
            for h in node.handlers:
                h.body = self._block(h.body)
        return node

    def visit_Lambda(self, node):
        return node


def t_elsereturn(text, relpath):
    tree = ast.parse(text)
    _ElseReturn().generic_visit(tree)
    return ast.unparse(ast.fix_missing_locations(tree))


# ------------------------------------------------------------- guardclause
class _GuardClause(ast.NodeTransformer):
    """`for ..: ...; if c: BODY`  (the `if` last in the loop body, no else)
    ->  `for ..: ...; if not c: continue; BODY`; likewise at the end of a
    function body with `return`."""

    @staticmethod
    def _neg(t):
        if isinstance(t, ast.UnaryOp) and isinstance(t.op, ast.Not):
            return t.operand
        return ast.UnaryOp(op=ast.Not(), operand=t)

    def _rewrite(self, body, leave):
        if body and isinstance(body[-1], ast.If) and not body[-1].orelse \
                and len(body[-1].body) > 1 and not any(
                    isinstance(x, (ast.FunctionDef, ast.ClassDef,
                                   ast.Global, ast.Nonlocal))
                    for x in body[-1].body):
            last = body[-1]
            return body[:-1] + [ast.If(test=self._neg(last.test),
                                       body=[leave()], orelse=[])] + last.body
        return body

    def visit_For(self, node):
        self.generic_visit(node)
        if not node.orelse:
            node.body = self._rewrite(node.body, ast.Continue)
        return node

    def visit_While(self, node):
        self.generic_visit(node)
        if not node.orelse:
            node.body = self._rewrite(node.body, ast.Continue)
        return node

    def visit_FunctionDef(self, node):
        self.generic_visit(node)
        gen = any(isinstance(x, (ast.Yield, ast.YieldFrom))
                  for x in ast.walk(node))
        if not gen:
            node.body = self._rewrite(node.body,
                                      lambda: ast.Return(value=None))
        return node

    def visit_Lambda(self, node):
        return node


def t_guardclause(text, relpath):
    return ast.unparse(ast.fix_missing_locations(
        _GuardClause().visit(ast.parse(text))))


# ------------------------------------------------------------------ isnot
class _IsNot(ast.NodeTransformer):
    """`a is not b` -> `not a is b`;  `a not in b` -> `not a in b`;
    `while 1` -> `while True`."""

    def visit_Compare(self, node):
        self.generic_visit(node)
        if len(node.ops) == 1 and isinstance(node.ops[0], (ast.IsNot,
                                                           ast.NotIn)):
            pos = ast.Is() if isinstance(node.ops[0], ast.IsNot) else ast.In()
            return ast.UnaryOp(op=ast.Not(), operand=ast.Compare(
                left=node.left, ops=[pos], comparators=node.comparators))
        return node

    def visit_While(self, node):
        self.generic_visit(node)
        if isinstance(node.test, ast.Constant) and node.test.value == 1 and \
                node.test.value is not True:
            node.test = ast.Constant(value=True)
        return node


def t_isnot(text, relpath):
    return ast.unparse(ast.fix_missing_locations(
        _IsNot().visit(ast.parse(text))))


# ---------------------------------------------------------------- withsplit
class _WithSplit(ast.NodeTransformer):
    """`with a, b: BODY` -> `with a: with b: BODY`;  `with a: with b: BODY`
    (nothing else in the outer body) -> `with a, b: BODY`."""

    def visit_With(self, node):
        self.generic_visit(node)
        if len(node.items) > 1:
            inner = ast.With(items=node.items[1:], body=node.body)
            return ast.With(items=node.items[:1], body=[inner])
        if len(node.body) == 1 and isinstance(node.body[0], ast.With) and \
                len(node.body[0].items) == 1:
            return ast.With(items=node.items + node.body[0].items,
                            body=node.body[0].body)
        return node


def t_withsplit(text, relpath):
    return ast.unparse(ast.fix_missing_locations(
        _WithSplit().visit(ast.parse(text))))


# ------------------------------------------------------------------ argtemp
def _simple_value(e):
    """a name, constant or attribute chain: reading it has no effect"""
    return isinstance(e, ast.Constant) or (
        isinstance(e, ast.Name)) or (
        isinstance(e, ast.Attribute) and _simple_value(e.value))


class _ArgTemp(ast.NodeTransformer):
    """`f(a.b, ...)` as a statement of its own (or `x = f(a.b, ...)`), with
    `f` a plain attribute chain and the FIRST argument an attribute chain
    ->  `_argN = a.b; f(_argN, ...)`."""

    def __init__(self):
        self.n = 0

    def _rewrite(self, body):
        out = []
        for s in body:
            call = None
            if isinstance(s, ast.Expr) and isinstance(s.value, ast.Call):
                call = s.value
            elif isinstance(s, ast.Assign) and isinstance(
                    s.value, ast.Call) and len(s.targets) == 1 and \
                    isinstance(s.targets[0], ast.Name):
                call = s.value
            if call is not None and _simple_value(call.func) and \
                    call.args and isinstance(call.args[0], ast.Attribute) \
                    and _simple_value(call.args[0]) and not any(
                        isinstance(a, ast.Starred) for a in call.args):
                self.n += 1
                name = '_arg%d' % self.n
                out.append(ast.Assign(
                    targets=[ast.Name(id=name, ctx=ast.Store())],
                    value=call.args[0]))
                call.args[0] = ast.Name(id=name, ctx=ast.Load())
            out.append(s)
        return out

    def generic_visit(self, node):
        super().generic_visit(node)
        for field in ('body', 'orelse', 'finalbody'):
            b = getattr(node, field, None)
            if isinstance(b, list) and b and isinstance(b[0], ast.stmt):
                setattr(node, field, self._rewrite(b))
        return node

    def visit_ClassDef(self, node):
        # class bodies: only the methods
        for i, s in enumerate(node.body):
            if isinstance(s, (ast.FunctionDef, ast.AsyncFunctionDef)):
                node.body[i] = self.visit(s)
        return node

    def visit_Module(self, node):
        for i, s in enumerate(node.body):
            if isinstance(s, (ast.FunctionDef, ast.AsyncFunctionDef,
                              ast.ClassDef)):
                node.body[i] = self.visit(s)
        return node


def t_argtemp(text, relpath):
    return ast.unparse(ast.fix_missing_locations(
        _ArgTemp().visit(ast.parse(text))))


# ------------------------------------------------------------------ ternary
class _Ternary(ast.NodeTransformer):
    """`if c: x = A` / `else: x = B` (one simple name, both branches)  ->
    `x = A if c else B`;  `x = A if c else B` as a statement  ->  the
    if/else statement."""

    def visit_If(self, node):
        self.generic_visit(node)
        if len(node.body) == 1 and len(node.orelse) == 1:
            a, b = node.body[0], node.orelse[0]
            if isinstance(a, ast.Assign) and isinstance(b, ast.Assign) and \
                    len(a.targets) == 1 and len(b.targets) == 1 and \
                    isinstance(a.targets[0], ast.Name) and isinstance(
                        b.targets[0], ast.Name) and \
                    a.targets[0].id == b.targets[0].id:
                return ast.Assign(targets=a.targets, value=ast.IfExp(
                    test=node.test, body=a.value, orelse=b.value))
        return node

    def visit_Assign(self, node):
        if isinstance(node.value, ast.IfExp) and len(node.targets) == 1 \
                and isinstance(node.targets[0], ast.Name):
            t = node.targets[0]
            return ast.If(
                test=node.value.test,
                body=[ast.Assign(targets=[ast.Name(id=t.id, ctx=ast.Store())],
                                 value=node.value.body)],
                orelse=[ast.Assign(
                    targets=[ast.Name(id=t.id, ctx=ast.Store())],
                    value=node.value.orelse)])
        return node


def t_ternary(text, relpath):
    return ast.unparse(ast.fix_missing_locations(
        _Ternary().visit(ast.parse(text))))


# ------------------------------------------------------------------- kwcall
class _KwCall(ast.NodeTransformer):
    """`self.m(a, b)` with `m` a method defined in the same class with plain
    positional parameters  ->  `self.m(p1=a, p2=b)` (evaluation order is
    unchanged; a subclass overriding `m` with other parameter names would
    make this unsafe -- ZODB has none for the methods concerned, and the
    transformation is validated against the full test suite)."""

    def __init__(self, tree):
        self.sig = {}
        # methods overridden anywhere in the module under the same name are
        # left alone
        seen = {}
        for c in ast.walk(tree):
            if isinstance(c, ast.ClassDef):
                for f in c.body:
                    if isinstance(f, ast.FunctionDef):
                        seen.setdefault(f.name, []).append(f)
        for name, fs in seen.items():
            if len(fs) != 1:
                continue
            f = fs[0]
            a = f.args
            if a.vararg or a.kwarg or a.posonlyargs or a.kwonlyargs or \
                    not a.args or a.args[0].arg != 'self':
                continue
            self.sig[name] = [x.arg for x in a.args[1:]]
        self.cls = None

    def visit_ClassDef(self, node):
        old, self.cls = self.cls, node
        self.generic_visit(node)
        self.cls = old
        return node

    def visit_Call(self, node):
        self.generic_visit(node)
        if self.cls is None:
            return node
        own = {f.name for f in self.cls.body
               if isinstance(f, ast.FunctionDef)}
        fn = node.func
        if isinstance(fn, ast.Attribute) and isinstance(fn.value, ast.Name) \
                and fn.value.id == 'self' and fn.attr in own and \
                fn.attr in self.sig and node.args and not node.keywords and \
                not any(isinstance(a, ast.Starred) for a in node.args) and \
                len(node.args) <= len(self.sig[fn.attr]) and \
                not fn.attr.startswith('__'):
            names = self.sig[fn.attr]
            node.keywords = [ast.keyword(arg=names[i], value=a)
                             for i, a in enumerate(node.args)]
            node.args = []
        return node


def t_kwcall(text, relpath):
    tree = ast.parse(text)
    return ast.unparse(ast.fix_missing_locations(_KwCall(tree).visit(tree)))


# ----------------------------------------------------------------- condtemp
class _CondTemp(ast.NodeTransformer):
    """`if <call | comparison | and/or | not ...>:`  ->
    `_condN = <the test>; if _condN:` (an `elif` becomes `else:` + the two
    statements).  Inside functions only."""

    def __init__(self):
        self.n = 0

    def _rewrite(self, body):
        out = []
        for s in body:
            if isinstance(s, ast.If) and isinstance(
                    s.test, (ast.Call, ast.Compare, ast.BoolOp,
                             ast.UnaryOp)):
                self.n += 1
                name = '_cond%d' % self.n
                out.append(ast.Assign(
                    targets=[ast.Name(id=name, ctx=ast.Store())],
                    value=s.test))
                s.test = ast.Name(id=name, ctx=ast.Load())
            out.append(s)
        return out

    def generic_visit(self, node):
        super().generic_visit(node)
        for field in ('body', 'orelse', 'finalbody'):
            b = getattr(node, field, None)
            if isinstance(b, list) and b and isinstance(b[0], ast.stmt):
                setattr(node, field, self._rewrite(b))
        return node

    def visit_ClassDef(self, node):
        for i, s in enumerate(node.body):
            if isinstance(s, (ast.FunctionDef, ast.AsyncFunctionDef)):
                node.body[i] = self.visit(s)
        return node

    def visit_Module(self, node):
        for i, s in enumerate(node.body):
            if isinstance(s, (ast.FunctionDef, ast.AsyncFunctionDef,
                              ast.ClassDef)):
                node.body[i] = self.visit(s)
        return node


def t_condtemp(text, relpath):
    return ast.unparse(ast.fix_missing_locations(
        _CondTemp().visit(ast.parse(text))))


TRANSFORMS = {
    'kwcall': t_kwcall, 'condtemp': t_condtemp,
    'withsplit': t_withsplit, 'argtemp': t_argtemp, 'ternary': t_ternary,
    'reformat': t_reformat, 'rename': t_rename, 'flipcmp': t_flipcmp,
    'invertif': t_invertif, 'demorgan': t_demorgan, 'augassign': t_augassign,
    'lockstmt': t_lockstmt, 'tempret': t_tempret,
    'elsereturn': t_elsereturn, 'isnot': t_isnot,
    'guardclause': t_guardclause,
}


def _run(args):
    name, relpath, text, src, props = args
    from . import engine
    d = tempfile.mkdtemp(prefix='zverif-eq-')
    try:
        dst = os.path.join(d, 'src')
        shutil.copytree(os.path.join(src, 'ZODB'), os.path.join(dst, 'ZODB'),
                        ignore=shutil.ignore_patterns('__pycache__', 'tests'))
        with open(os.path.join(dst, relpath), 'w') as f:
            f.write(text)
        bad = []
        for pid in props:
            out = io.StringIO()
            rc = engine.check_property(pid, 'quick', 0, out=out, src=dst,
                                       write_evidence=False,
                                       write_replays=False)
            if rc != 0:
                lines = [l for l in out.getvalue().splitlines()
                         if l.startswith(('--- ', 'ANALYSIS-ERROR',
                                          '    at '))]
                bad.append((pid, rc, lines[:6]))
        return name, relpath, bad
    finally:
        shutil.rmtree(d, ignore_errors=True)


def variants(src=SRC, files=None, only=None):
    for rel in FILES:
        if files and rel not in files:
            continue
        if not os.path.exists(os.path.join(src, rel)):
            continue
        with open(os.path.join(src, rel)) as f:
            text = f.read()
        for name, fn in TRANSFORMS.items():
            if only and name not in only:
                continue
            try:
                new = fn(text, rel)
                compile(new, rel, 'exec')
            except Exception as e:       # transformation not applicable
                yield name, rel, None, repr(e)
                continue
            if ast.dump(ast.parse(new)) == ast.dump(ast.parse(text)) and \
                    name != 'reformat':
                continue
            yield name, rel, new, None


def run(src=SRC, files=None, only=None, jobs=16, out=sys.stdout,
        props=None, evidence_for=None):
    t0 = time.time()
    todo = []
    bad = 0
    for name, rel, text, err in variants(src, files, only):
        if err:
            print('EQUIV-SKIP transformation %s could not be applied to %s: '
                  '%s' % (name, rel, err), file=out)
            continue
        todo.append((name, rel, text, src, props or PROPS))
    with ProcessPoolExecutor(max_workers=max(1, min(jobs, len(todo)))) as ex:
        res = list(ex.map(_run, todo))
    for name, rel, b in res:
        for pid, rc, lines in b:
            bad += 1
            print('EQUIV-FAIL %s of %s: check %s %s' % (
                name, rel, pid, 'raised an alarm' if rc == 1 else 'gave up'),
                file=out)
            for l in lines:
                print('      ' + l, file=out)
    print('equiv: %d behaviour-preserving rewrites x %d checks, %d failures, '
          '%.1fs' % (len(todo), len(props or PROPS), bad, time.time() - t0),
          file=out)
    if evidence_for:
        import json
        from . import VERIF
        p = os.path.join(VERIF, 'evidence', evidence_for + '.json')
        if os.path.exists(p):
            with open(p) as f:
                ev = json.load(f)
            ev['coverage']['behaviour_preserving_rewrites'] = {
                'transformations': sorted(TRANSFORMS),
                'rewritten_files': len(todo), 'failures': bad}
            with open(p, 'w') as f:
                json.dump(ev, f, indent=1, default=str)
    return bad, len(todo)


def main(argv=None):
    ap = argparse.ArgumentParser()
    ap.add_argument('--files', default=None)
    ap.add_argument('--only', default=None)
    ap.add_argument('--props', default=None)
    ap.add_argument('--jobs', type=int, default=16)
    ap.add_argument('--src', default=SRC)
    a = ap.parse_args(argv)
    bad, n = run(a.src, set(a.files.split(',')) if a.files else None,
                 set(a.only.split(',')) if a.only else None, a.jobs,
                 props=a.props.split(',') if a.props else None)
    return 2 if bad else 0


if __name__ == '__main__':
    sys.exit(main())
