"""Self-test of the checker (thorough tier): AST-computed breaker variants and
benign twins of the analysed sources are written to a scratch copy outside
/repo and /verif; every breaker must be reported by the named rule and every
twin must stay silent (DESIGN.md section 2.7).  Variants are declared next to
the rules in zverif/variants.py."""

import io
import json
import os
import shutil
import sys
import tempfile
import time
from concurrent.futures import ProcessPoolExecutor

from . import SRC, VERIF


def _run_variant(args):
    pid, vid, kind, rule_id, files, src = args
    from . import engine
    d = tempfile.mkdtemp(prefix='zverif-st-')
    try:
        dst = os.path.join(d, 'src')
        shutil.copytree(os.path.join(src, 'ZODB'), os.path.join(dst, 'ZODB'),
                        ignore=shutil.ignore_patterns('__pycache__', 'tests'))
        for rel, text in files.items():
            with open(os.path.join(dst, rel), 'w') as f:
                f.write(text)
        out = io.StringIO()
        rc = engine.check_property(pid, 'quick', 0, out=out, src=dst,
                                   write_evidence=False, write_replays=False)
        text = out.getvalue()
        fired = [l for l in text.splitlines() if l.startswith('--- ')]
        return (vid, kind, rule_id, rc, fired, text)
    finally:
        shutil.rmtree(d, ignore_errors=True)


def run(pid=None, seed=0, jobs=16, out=sys.stdout, src=SRC):
    from . import variants
    t0 = time.time()
    todo = []
    errors = []
    for v in variants.collect(pid, src):
        if v.error:
            errors.append('%s: %s' % (v.id, v.error))
            continue
        todo.append((v.property, v.id, v.kind, v.rule, v.files, src))
    results = []
    if todo:
        with ProcessPoolExecutor(max_workers=min(jobs, len(todo))) as ex:
            results = list(ex.map(_run_variant, todo))
    bad = 0
    nb = nt = 0
    for vid, kind, rule_id, rc, fired, text in results:
        if kind == 'breaker':
            nb += 1
            hit = rc == 1 and any(('--- %s ' % rule_id) in l for l in fired)
            if not hit:
                bad += 1
                print('SELFTEST-FAIL breaker %s not reported by %s (rc=%d, '
                      'fired=%s)' % (vid, rule_id, rc, fired), file=out)
                if rc == 2:
                    print(text, file=out)
        else:
            nt += 1
            if rc != 0:
                bad += 1
                print('SELFTEST-FAIL benign twin %s raised an alarm (rc=%d): '
                      '%s' % (vid, rc, fired or text[-400:]), file=out)
    # A variant whose anchor text is not in the current tree cannot be
    # computed: the tree was edited there.  That says nothing about the
    # checker, so it is reported and skipped, not failed (on the pinned tree
    # every variant applies: "0 skipped").
    for e in errors:
        print('SELFTEST-SKIP variant does not apply to the current tree: %s'
              % e, file=out)
    print('selftest %s: %d breakers, %d benign twins, %d skipped, '
          '%d failures, %.1fs' % (pid or 'all', nb, nt, len(errors), bad,
                                  time.time() - t0), file=out)
    if pid:
        _merge_evidence(pid, nb, nt, bad, results)
    if bad:
        print('ANALYSIS-ERROR property=%s the checker failed its self-test' %
              (pid or 'all'), file=out)
        return 2
    return 0


def _merge_evidence(pid, nb, nt, bad, results):
    p = os.path.join(VERIF, 'evidence', pid + '.json')
    if not os.path.exists(p):
        return
    with open(p) as f:
        ev = json.load(f)
    ev['coverage']['selftest'] = {
        'breakers': nb, 'benign_twins': nt, 'failures': bad,
        'variants': [{'id': vid, 'kind': kind, 'rule': rule_id,
                      'reported': rc == 1}
                     for vid, kind, rule_id, rc, fired, text in results]}
    with open(p, 'w') as f:
        json.dump(ev, f, indent=1, default=str)
