"""Rule registry, run context, known-findings handling, evidence and output
contract (DESIGN.md sections 2.5, 2.6)."""

import ast
import hashlib
import json
import os
import sys
import time
import traceback

from . import SRC, VERIF, AnalysisError
from .cfg import Builder
from .flow import Facts, witness
from .model import Program

RULES = {}        # rule id -> RuleDef
PROPERTY_RULES = {}   # property id -> [rule ids]


class RuleDef:
    def __init__(self, rid, title, func, props, min_instances):
        self.id = rid
        self.title = title
        self.func = func
        self.props = props
        self.min_instances = min_instances


def rule(rid, title, props=None, min_instances=1):
    """Register a rule.  `props` lists the properties that include it (the
    first is the owner, given by the id prefix)."""
    owner = rid.split('.')[0]
    plist = [owner] + [p for p in (props or []) if p != owner]

    def deco(func):
        rd = RuleDef(rid, title, func, plist, min_instances)
        if rid in RULES:
            raise RuntimeError('rule id %s registered twice' % rid)
        RULES[rid] = rd
        for p in plist:
            PROPERTY_RULES.setdefault(p, []).append(rid)
        return func
    return deco


class Finding:
    def __init__(self, rule_id, module, function, stmt, message, lineno=None,
                 witness_lines=None, instance=None):
        self.rule = rule_id
        self.module = module
        self.function = function
        self.stmt = ' '.join((stmt or '').split())
        self.message = message
        self.lineno = lineno
        self.witness = witness_lines or []
        self.instance = instance

    @property
    def construct(self):
        return {'module': self.module, 'function': self.function,
                'stmt': self.stmt}

    @property
    def key(self):
        h = hashlib.sha1(('%s|%s|%s|%s' % (
            self.rule, self.module, self.function, self.stmt)
        ).encode()).hexdigest()[:12]
        return '%s-%s' % (self.rule.replace('.', '_'), h)


class RuleRun:
    """What a rule function receives."""

    def __init__(self, ctx, rd):
        self.ctx = ctx
        self.rd = rd
        self.prog = ctx.prog
        self.tier = ctx.tier
        self.instances = []
        self.findings = []
        self.observations = []
        self.stats = {'cfg_nodes': 0, 'state_pairs': 0, 'graphs': 0}
        self.exceptions_used = []

    @property
    def depth(self):
        return 3 if self.tier == 'quick' else 6

    # --- building graphs --------------------------------------------------
    def cfg(self, func, cls=None, max_depth=None, inline=None, **kw):
        b = Builder(self.prog, max_depth=self.depth if max_depth is None
                    else max_depth, inline=inline, **kw)
        g = b.build(func, cls)
        self.stats['cfg_nodes'] += len(g.reachable())
        self.stats['graphs'] += 1
        return g, b, Facts(g, b)

    def method(self, cls, name):
        r = self.prog.find_method(cls, name)
        if r is None:
            raise AnalysisError('%s: anchor method %s.%s not found' % (
                self.rd.id, cls.name, name))
        return r[0]

    def count(self, stats):
        self.stats['state_pairs'] += stats.get('pairs', 0)

    # --- recording ---------------------------------------------------------
    def instance(self, name, **what):
        d = {'instance': name}
        d.update(what)
        self.instances.append(d)
        return d

    def require(self, cond, msg):
        if not cond:
            raise AnalysisError('%s: %s' % (self.rd.id, msg))

    def named_exception(self, symbol, reason):
        self.exceptions_used.append({'symbol': symbol, 'reason': reason})

    def observe(self, text):
        self.observations.append(text)

    def violation(self, node_or_construct, message, g=None, path=None,
                  instance=None, at_root=False, key=None):
        """`key`: a semantic name of the construct used for the identity of
        the finding instead of the statement text (so that renaming a local
        does not change which finding it is)."""
        if at_root and not isinstance(node_or_construct, tuple):
            node_or_construct = root_construct(node_or_construct)
        if isinstance(node_or_construct, tuple):
            module, function, stmt = node_or_construct[:3]
            lineno = node_or_construct[3] if len(node_or_construct) > 3 \
                else None
        else:
            n = node_or_construct
            module = n.frame.func.module.relpath
            function = n.frame.func.qualname
            stmt = stmt_text(n)
            lineno = n.lineno
        w = witness(g, path) if (g is not None and path) else []
        shown = stmt
        if key is not None:
            shown, stmt = stmt, key
        f = Finding(self.rd.id, module, function, stmt, message, lineno, w,
                    instance)
        f.shown = ' '.join((shown or '').split())
        for old in self.findings:
            if old.key == f.key:
                return old
        self.findings.append(f)
        return f


def root_construct(node):
    """Attribute a node inside an inlined callee to the statement of the
    analysed (root) function that contains the outermost call."""
    fr = node.frame
    if fr.parent is None:
        return node
    while fr.parent is not None and fr.parent.parent is not None:
        fr = fr.parent
    root = fr.parent
    s = fr.call_stmt
    text = ast_text(s) if s is not None else ast.unparse(fr.call)
    return (root.func.module.relpath, root.func.qualname, text,
            getattr(s, 'lineno', getattr(fr.call, 'lineno', None)))


def ast_text(a):
    try:
        if isinstance(a, ast.With):
            return 'with ' + ', '.join(ast.unparse(i.context_expr)
                                       for i in a.items)
        if isinstance(a, ast.For):
            return 'for %s in %s' % (ast.unparse(a.target),
                                     ast.unparse(a.iter))
        if isinstance(a, (ast.While, ast.If)):
            return ast.unparse(a.test)
        return ' '.join(ast.unparse(a).split())
    except Exception:
        return '<?>'


def stmt_text(node):
    """Normalised text of the construct a node stands for (never a line
    number: keys must survive reformatting)."""
    a = node.ast
    if a is None:
        return '<%s>' % node.kind
    try:
        if node.kind in ('acq', 'rel') and isinstance(a, ast.With):
            return 'with ' + ', '.join(ast.unparse(i.context_expr)
                                       for i in a.items)
        if isinstance(a, ast.With):
            return 'with ' + ', '.join(ast.unparse(i.context_expr)
                                       for i in a.items)
        if isinstance(a, ast.For):
            return 'for %s in %s' % (ast.unparse(a.target),
                                     ast.unparse(a.iter))
        if isinstance(a, (ast.While, ast.If)):
            return ast.unparse(a.test)
        if isinstance(a, (ast.FunctionDef, ast.AsyncFunctionDef)):
            return 'def ' + a.name
        if isinstance(a, ast.Try):
            return 'try'
        if isinstance(a, ast.ExceptHandler):
            return 'except ' + (ast.unparse(a.type) if a.type else '')
        return ' '.join(ast.unparse(a).split())
    except Exception:
        return '<%s>' % node.kind


class Context:
    def __init__(self, tier='quick', seed=0, src=SRC):
        self.tier = tier
        self.seed = seed
        self.src = src
        self.prog = Program(src)


def load_known():
    p = os.path.join(VERIF, 'known_findings.json')
    if not os.path.exists(p):
        return []
    with open(p) as f:
        return json.load(f)['findings']


def match_known(f, known):
    for k in known:
        c = k.get('construct', {})
        if k.get('rule') == f.rule and c.get('module') == f.module and \
                c.get('function') == f.function and \
                ' '.join(c.get('stmt', '').split()) == f.stmt:
            return k
    return None


def run_rules(ctx, rule_ids):
    """Run the rules.  A rule that cannot give a verdict (vanished anchor,
    vacuous match) records an error instead of stopping the others: if
    another rule reports a violation that is the result; otherwise the
    error makes the whole check ANALYSIS-ERROR."""
    runs = []
    for rid in rule_ids:
        rd = RULES[rid]
        rr = RuleRun(ctx, rd)
        rr.error = None
        try:
            rd.func(rr)
            if len(rr.instances) < rd.min_instances and not rr.findings:
                raise AnalysisError(
                    '%s matched %d program constructs, fewer than the %d '
                    'confirmed by hand: the rule would pass vacuously' % (
                        rid, len(rr.instances), rd.min_instances))
        except AnalysisError as e:
            rr.error = str(e)
        runs.append(rr)
    return runs


def check_property(pid, tier='quick', seed=0, out=sys.stdout, src=SRC,
                   write_evidence=True, rule_filter=None, write_replays=True):
    """Run every rule of property `pid`.  Returns the exit status."""
    from . import rules  # noqa: F401  (registers the rules)
    t0 = time.time()
    import signal

    def _alarm(signum, frame):
        raise AnalysisError('analysis exceeded its wall-clock budget')
    try:
        signal.signal(signal.SIGALRM, _alarm)
        signal.alarm(240 if tier == 'quick' else 1500)
    except ValueError:
        pass            # not in the main thread
    try:
        if pid not in PROPERTY_RULES:
            raise AnalysisError('no rules registered for %s' % pid)
        ctx = Context(tier, seed, src)
        ids = PROPERTY_RULES[pid]
        if rule_filter:
            ids = [i for i in ids if i in rule_filter]
        runs = run_rules(ctx, ids)
    except AnalysisError as e:
        print('ANALYSIS-ERROR property=%s %s' % (pid, e), file=out)
        return 2
    except Exception:
        print('ANALYSIS-ERROR property=%s internal error:\n%s' % (
            pid, traceback.format_exc()), file=out)
        return 2
    try:
        signal.alarm(0)
    except ValueError:
        pass
    known = load_known()
    n_viol = 0
    n_known = 0
    prog = ctx.prog
    print('zverif %s tier=%s: %d modules, %d classes, %d functions parsed '
          'from %s' % (pid, tier, len(prog.modules),
                       sum(1 for _ in prog.all_classes()),
                       sum(1 for _ in prog.all_functions()), src), file=out)
    for rr in runs:
        print('  rule %-8s %-62s instances=%d findings=%d' % (
            rr.rd.id, rr.rd.title[:62], len(rr.instances),
            len(rr.findings)), file=out)
        for o in rr.observations:
            print('    OBSERVATION: %s' % o, file=out)
    for rr in runs:
        for f in rr.findings:
            k = match_known(f, known)
            if k is not None and k.get('status') == 'known':
                n_known += 1
                print('KNOWN-FINDING: property=%s %s %s (%s in %s: `%s`) -- %s'
                      % (pid, k.get('id', ''), f.rule, f.function, f.module,
                         f.stmt[:80], k.get('what', f.message)), file=out)
                continue
            n_viol += 1
            rp = write_replay(pid, f, tier) if write_replays else '-'
            print('--- %s violated: %s' % (f.rule, RULES[f.rule].title),
                  file=out)
            print('    at %s:%s in %s' % (f.module, f.lineno, f.function),
                  file=out)
            print('    construct: %s' % getattr(f, 'shown', f.stmt)[:200] + (
                '   [%s]' % f.stmt if getattr(f, 'shown', f.stmt) != f.stmt
                else ''), file=out)
            print('    %s' % f.message, file=out)
            if k is not None and k.get('status') == 'fixed':
                print('    (this was repaired in %s and has come back)' %
                      k.get('commit', '?'), file=out)
            for line in f.witness:
                print('      | %s' % line, file=out)
            print('VIOLATION property=%s replay=%s' % (pid, rp), file=out)
    errors = [rr.error for rr in runs if rr.error]
    for e in errors:
        print('ANALYSIS-ERROR property=%s %s' % (pid, e), file=out)
    if errors and not n_viol:
        return 2
    wall = time.time() - t0
    if write_evidence:
        write_evidence_file(pid, tier, seed, runs, n_viol, n_known, wall, ctx)
    print('%s: %d rule(s), %d instance(s), %d violation(s), %d known '
          'finding(s), %.2fs' % (pid, len(runs),
                                 sum(len(r.instances) for r in runs),
                                 n_viol, n_known, wall), file=out)
    return 1 if n_viol else 0


def write_replay(pid, f, tier):
    d = os.path.join(VERIF, 'replays', pid)
    os.makedirs(d, exist_ok=True)
    p = os.path.join(d, f.key + '.json')
    with open(p, 'w') as fh:
        json.dump({'property': pid, 'rule': f.rule, 'construct': f.construct,
                   'message': f.message, 'witness': f.witness, 'tier': tier,
                   'replay': 'cd /verif && /venv/bin/python -m zverif replay '
                             + p}, fh, indent=1)
    return p


def write_evidence_file(pid, tier, seed, runs, n_viol, n_known, wall, ctx):
    d = os.path.join(VERIF, 'evidence')
    os.makedirs(d, exist_ok=True)
    instances = [i for r in runs for i in r.instances]
    distinct = len({json.dumps(i, sort_keys=True, default=str)
                    for i in instances})
    obligations = len(instances)
    failed = len({(f.rule, f.instance) for r in runs for f in r.findings})
    samples = []
    for r in runs:
        for i in r.instances[:3]:
            s = {'rule': r.rd.id}
            s.update(i)
            samples.append(s)
    prog = ctx.prog
    ev = {
        'property_id': pid,
        'tier': tier,
        'seed': int(seed),
        'level': 'other',
        'coverage': {
            'explanation': (
                'Static analysis of /repo/src/ZODB (ast + hand-built CFG with '
                'exception edges + resolved class hierarchy); no ZODB code is '
                'executed.  Each rule is a structural necessary condition of '
                'the property (see DESIGN.md section 3); a rule instance is '
                'one program construct (entry point, call site, access site) '
                'the rule was evaluated on.  The check decides those '
                'structural clauses, not the behaviour as a whole.'),
            'obligations': obligations,
            'discharged': max(0, obligations - failed),
            'evaluations': obligations,
            'distinct_nontrivial': distinct,
            'rule': 'one evaluation = one rule instance matched on a program '
                    'construct; distinct = distinct (rule, construct) pairs; '
                    'non-trivial = the rule matched at least one construct '
                    '(a rule matching fewer constructs than confirmed by hand '
                    'is an ANALYSIS-ERROR)',
            'samples': samples,
            'rules': [{'id': r.rd.id, 'title': r.rd.title,
                       'instances': len(r.instances),
                       'findings': len(r.findings),
                       'min_instances': r.rd.min_instances,
                       'named_exceptions': r.exceptions_used,
                       'observations': r.observations,
                       'cfg_nodes': r.stats['cfg_nodes'],
                       'graphs': r.stats['graphs'],
                       'state_pairs': r.stats['state_pairs']}
                      for r in runs],
            'modules_parsed': len(prog.modules),
            'functions_parsed': sum(1 for _ in prog.all_functions()),
            'cfg_nodes': sum(r.stats['cfg_nodes'] for r in runs),
            'state_pairs': sum(r.stats['state_pairs'] for r in runs),
            'known_findings_reported': n_known,
            'exhaustive': True,
        },
        'assumptions': [
            'no monkey-patching of the analysed classes beyond module-level '
            'assignments visible in the source',
            'opaque storages honour IStorage',
            'any call may raise unless it is in the short non-raising list '
            '(lock operations, logging, builtin container methods on fields '
            'initialised to builtin containers)',
            'single list/dict operations are atomic under the GIL',
        ],
        'wall_s': round(wall, 3),
        'violations': n_viol,
    }
    with open(os.path.join(d, pid + '.json'), 'w') as fh:
        json.dump(ev, fh, indent=1, default=str)
